#!/usr/bin/env python3
"""Regenerates MANIFEST.json from the tables below (kept next to ./check so both stay in sync)."""
import json, subprocess, os
ROOT = os.path.dirname(os.path.abspath(__file__))

CLAIMED = {
    "C07": ("exploration", "4 C07", "deterministic simulation: whole VBuilder pipeline under shuttle (seeded random/PCT schedules) with fault-injecting lenders and simulated disk, reference-model oracle",
            "Seeded search over (configuration, input, schedule): the real par_solve/producer/worker/main threads run under a scheduler the simulator owns; every key is read back against the model. Sampling, not proof; right level because the quantifier includes schedules and configurations no test can pin.",
            "Trusted: shuttle scheduler, channel shim (same blocking/disconnect semantics as crossbeam), SimFile, reference model (key->value map). Sequentially consistent interleavings only; rayon inside a worker is not scheduled."),
    "C08": ("exploration", "4 C08", "deterministic simulation: filter builds under shuttle schedules, membership oracle plus 6-sigma binomial test on seeded non-member probes",
            "Same simulated world as C07 through try_build_filter for every backend family and every filter width; no-false-negative is checked for every inserted key, the false-positive rate statistically per case.",
            "Trusted as for C07; the FPR clause is statistical (6 sigma, false-alarm probability per case < 1e-8)."),
    "C13": ("exploration", "4 C13", "deterministic simulation: writer threads under shuttle (seeded random and PCT schedulers) with a type-level seam that puts a scheduling point in front of every atomic memory operation (present or added later); bit-exact storage model, exact per-bit linearizability check for swap; Miri many-seeds as an independent second scheduler and race detector",
            "Seeded search over interleavings of the atomic operations of 2-3 writers (4 for swap) for every word type, width and index placement; every storage bit is compared with a model after join. Sampling of schedules, not enumeration.",
            "Sequentially consistent interleavings at the granularity of atomic operations (the granularity at which a lost update exists). Trusted: shuttle, the bit-array model."),
    "C17": ("fault_enumeration", "4 C17", "deterministic simulation with fault enumeration: every single-fault placement (key/value item x pass, rewind ordinal, disk budgets) per seeded template, under shuttle",
            "For each seeded input the complete set of single-fault placements over every pass the reference run reached is executed; duplicates force four passes so retry passes are really faulted. Complete per template, templates sampled.",
            "Single faults only; a panic by unwinding is accepted for hard disk faults inside shard iteration (the store unwraps there). Trusted: FaultyLender, SimFile, shuttle."),
}

CLAIMED["C20"] = ("exploration", "4 C20", "deterministic simulation: lender histories (next/rewind/drain/heal) over a simulated Read+Seek source with short reads, EINTR, hard read errors and failing seeks; line-list reference model",
            "Seeded search over (lender kind, input, I/O behaviour, consume/rewind history); every pass is compared item by item with an independently computed list of lines. Legal-behaviour and fault-injecting configurations are separate.",
            "Trusted: SimSource, the line-splitting model, the real zstd/flate2 codecs as black boxes.")

CLAIMED["C18"] = ("exploration", "4 C18", "deterministic simulation: push/into_shard_store/iter histories over the online store and over the offline store on a simulated disk (short I/O, EINTR, ENOSPC, EIO, failing open/seek); multiset conservation oracle",
            "Seeded search over (types, bit triples, multisets, pass histories, disk behaviour); conservation, shard placement, shard_sizes and pass agreement are checked after every pass.",
            "Trusted: SimFile, the multiset model. Hard disk faults may surface as Err or unwinding panic; a reported success must still conserve.")

BITS_NOTE = "Trusted: the bit-level storage model (a Vec<bool> laid out LSB-first), the interpreter. Sampling of histories, not enumeration; sizes bounded (a few hundred elements, a share of multi-megabit vectors for the par_ operations)."
CLAIMED["C05"] = ("exploration", "4 C05/C06", "deterministic simulation: seeded operation histories on BitFieldVec (all word types, widths 0..=W::BITS) with rejected calls injected, full observation against a Vec<u128> model after every step, shrinking to a minimal history",
            "What the simulator adds to input generation is the state the history leaves behind (shrink-then-regrow, stale bits, spare capacity words, atomic round trips) and the injected rejected calls, which must unwind and change nothing.", BITS_NOTE)
CLAIMED["C06"] = ("exploration", "4 C05/C06", "deterministic simulation: seeded operation histories on BitVec/AtomicBitVec with rejected calls injected, full observation against a Vec<bool> model after every step",
            "Same interpreter as C05 for bit vectors: every observation (get, iter, iter_ones, iter_zeros, counts, equality, to_owned, atomic get/set/swap) is compared after every step of the history.", BITS_NOTE)
CLAIMED["C10"] = ("exploration", "4 C10", "deterministic simulation: bulk operations (copy, apply_in_place, reset/fill/flip/count and par_ variants under a drawn rayon pool width, try_chunks_mut, get_unaligned) inside histories on growable and on simulator-owned garbage-filled storage, element-wise model",
            "Weak fit, stated as such: the simulator-owned dimensions are the storage (spare words, garbage) and the pool width; the rest of the quantifier is seeded generation compared with the per-element definition.", BITS_NOTE)
CLAIMED["C14"] = ("exploration", "4 C14", "deterministic simulation with storage fault injection: vectors over simulator-owned storage whose slack bits and spare words hold garbage re-scrambled between operations; bit-exact storage model checked after every read and write",
            "Core fit: the storage is the fault surface. Read clause and write clause are both checked after every step of every history.", BITS_NOTE)

RS_NOTE = "Weak fit, stated as such: the fault-injection content is the tail state (stale bits after pop/truncation, garbage and spare words in caller-supplied storage); the rest is seeded generation against a sorted-positions model. Nothing is generated between 2^24 and 2^32 bits; a few sparse vectors just beyond 2^32 bits exercise the upper counters."
CLAIMED["C01"] = ("exploration", "4 C01/C02", "deterministic simulation: rank structures (Rank9, five RankSmall variants, under selection wrappers up to depth 4) over bit vectors whose tail state is produced by simulated histories and garbage-filled caller storage; prefix-popcount model",
            "Every structure of a 33-entry catalogue (plain, nested, assembled with map(), over Vec-, Box- and slice-backed bit vectors) is built over seeded vectors in four tail states and compared with the model at every position (sampled on big vectors) including past the end.", RS_NOTE)
CLAIMED["C02"] = ("exploration", "4 C01/C02", "deterministic simulation: every selection structure in a 54-entry catalogue (plain, nested, assembled with map(), over Vec-, Box- and slice-backed bit vectors) with drawn parameters over bit vectors in clean, stale and dirty tail states; sorted-positions model for select and select_zero",
            "All structures are compared with one model, so answers cannot depend on structure or parameters; shapes target span thresholds, word counts mod 4 and inventory quanta.", RS_NOTE)

CLAIMED["C15"] = ("exploration", "4 C15", "deterministic simulation of restart-from-durable-state: every serializable family serialized into a fault-injecting sink (short writes, EINTR, hard error) and reloaded by six paths (simulated short-read source, aligned zero-copy buffer at a slack offset, load_full/load_mem/load_mmap/mmap on a real file); the original instance is the oracle",
            "Seeded search over (family, instance, I/O behaviour, loading path); every query of the type is compared between the original and each reloaded copy.",
            "Trusted: epserde and the OS loaders as black boxes on the real side, SimSink/SimSrc. Torn/truncated files are outside the property.")

NA = {
    "C03": "pure function of (values, n, u, selection back-end): no schedule, fault, stream or shared state for a simulator to own; the concurrent-builder clause is decided under C13",
    "C04": "pure function of (sequence, query): nothing to schedule or fault",
    "C09": "pure function of (strings, k, probe); the builder is a sequential fold with no I/O",
    "C11": "arithmetic on sizes reported by mem_size; no schedule, clock, fault or interleaving",
    "C12": "a statement about every argument value of every method, decided by instrumented execution of inputs, not by schedules or faults (simulated paths do run in a build where unchecked-precondition violations abort, and are reported under the property whose check hit them)",
    "C16": "pure integer arithmetic on (n, max shard, signature)",
    "C19": "pure function of the system of equations",
}

# properties whose checks are not built yet are listed as not claimed *for now*
PENDING = {
}

def repo_commits(prefix):
    out = subprocess.run(["git", "-C", "/repo", "log", "--format=%H %s"], capture_output=True, text=True).stdout
    return [l.split()[0] for l in out.splitlines() if l.split(" ", 1)[1].startswith(prefix)]

def main():
    checks = []
    for pid, (level, ref, tech, text, note) in sorted(CLAIMED.items()):
        checks.append(dict(
            property_id=pid,
            quick_cmd=f"./check {pid} quick",
            thorough_cmd=f"./check {pid} thorough",
            evidence_file=f"/verif/evidence/{pid}.json",
            replay_cmd_template=f"./check {pid} --replay {{path}}",
            engine="simcheck",
            level_claimed=dict(category=level, text=text, design_ref=f"DESIGN.md section {ref}"),
            level_note=note,
            technique=tech,
        ))
    na = [dict(property_id=k, reason=v) for k, v in sorted({**NA, **{k: v for k, v in PENDING.items() if k not in CLAIMED}}.items())]
    m = dict(
        version=1,
        setup_cmd="./check build all",
        hooks=dict(
            guard="sux_verif",
            enable="RUSTFLAGS --cfg sux_verif via /verif/sim/.cargo/config.toml; /verif/sim/sux/Cargo.toml is a shadow manifest whose [lib] path is /repo/src/lib.rs (adds verif_rt; crossbeam-channel, thread-priority and common_traits replaced by simulation shims through [patch.crates-io]); a second cfg, sux_verif_stdatomic, only ever narrows the hooks (fallback build that keeps the std atomic types)",
            baseline_off_cmd="cd /repo && cargo nextest run --workspace --no-fail-fast --test-threads 8 --offline || cargo test --workspace --no-fail-fast --offline",
            source_commits=repo_commits("verif hooks"),
            add_only=True,
        ),
        engines=[dict(name="simcheck", path="/verif/sim/simcheck", serves_properties=sorted(CLAIMED.keys()),
                      kind_free_text="seeded deterministic simulator: explicit cases (ops, faults, schedule), reference models, shrinker, JSON replay, 16 worker processes; shuttle owns thread scheduling")],
        checks=checks,
        notes="Technique family: deterministic simulation with fault injection. known_findings.json lists genuine defects (fixed: commits in /repo; known: reported as KNOWN-FINDING lines). See DESIGN.md.",
        not_applicable=na,
    )
    json.dump(m, open(os.path.join(ROOT, "MANIFEST.json"), "w"), indent=1)
    # plain-text rendering of known_findings.json (same content, one line per entry)
    kf = json.load(open(os.path.join(ROOT, "known_findings.json")))
    with open(os.path.join(ROOT, "known_findings.txt"), "w") as f:
        for e in kf["entries"]:
            if e["status"] == "fixed":
                f.write(f"fixed: property={e['property']} {e.get('commit')} {e['signature']} -- {e['what']}\n")
            else:
                f.write(f"known: property={e['property']} {e['signature']} -- {e['what']} [not repaired: {e.get('why_not_fixed')}]\n")

if __name__ == "__main__":
    main()
