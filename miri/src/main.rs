//! argv: <case_seed_start> <n_cases> [only_kind]
//! Runs n_cases small concurrent-writer scenarios with real std threads. Under Miri
//! (-Zmiri-many-seeds, -Zmiri-preemption-rate) every run explores another schedule.
//! Exit code 0 = every oracle held; panics (exit 101 / Miri error) otherwise.

use std::sync::atomic::Ordering;
use std::sync::Arc;
use sux::bits::{AtomicBitFieldVec, AtomicBitVec, BitFieldVec, BitVec};
use sux::dict::elias_fano::{EliasFanoBuilder, EliasFanoConcurrentBuilder};
use sux::traits::bit_field_slice::*;

struct Rng(u64);
impl Rng {
    fn next(&mut self) -> u64 {
        self.0 = self.0.wrapping_add(0x9E3779B97F4A7C15);
        let mut z = self.0;
        z = (z ^ (z >> 30)).wrapping_mul(0xBF58476D1CE4E5B9);
        z = (z ^ (z >> 27)).wrapping_mul(0x94D049BB133111EB);
        z ^ (z >> 31)
    }
    fn below(&mut self, n: u64) -> u64 {
        self.next() % n
    }
}

fn mask(w: usize) -> u64 {
    if w >= 64 {
        u64::MAX
    } else {
        (1u64 << w) - 1
    }
}

fn bfv_case(rng: &mut Rng) {
    // three writers on neighbouring elements, chosen around a straddling field
    let width = 1 + rng.below(63) as usize;
    let len = 12usize;
    let init: Vec<u64> = (0..len).map(|_| rng.next() & mask(width)).collect();
    let mut v = BitFieldVec::<usize>::new(width, len);
    for (i, &x) in init.iter().enumerate() {
        v.set(i, x as usize);
    }
    let a: Arc<AtomicBitFieldVec<usize>> = Arc::new(v.into());
    // find a straddler if any
    let strad = (1..len - 1).find(|&i| (i * width) / 64 != ((i + 1) * width - 1) / 64).unwrap_or(1 + rng.below(10) as usize);
    let idx = [strad - 1, strad, strad + 1];
    let vals: Vec<u64> = (0..3).map(|_| rng.next() & mask(width)).collect();
    let hs: Vec<_> = (0..3)
        .map(|t| {
            let a = a.clone();
            let (i, x) = (idx[t], vals[t]);
            std::thread::spawn(move || a.set_atomic(i, x as usize, Ordering::Relaxed))
        })
        .collect();
    for h in hs {
        h.join().unwrap();
    }
    for i in 0..len {
        let want = idx.iter().position(|&j| j == i).map(|t| vals[t]).unwrap_or(init[i]);
        let got = a.get_atomic(i, Ordering::Relaxed) as u64;
        assert_eq!(got, want, "C13 bfv: element {i} (width {width}, writers on {idx:?})");
    }
}

fn set_case(rng: &mut Rng) {
    let len = 70usize;
    let init: Vec<bool> = (0..len).map(|_| rng.below(2) == 1).collect();
    let v: BitVec = init.iter().copied().collect();
    let a: Arc<AtomicBitVec> = Arc::new(v.into());
    let base = rng.below(60) as usize;
    let idx = [base, base + 1, base + 5];
    let vals: Vec<bool> = (0..3).map(|_| rng.below(2) == 1).collect();
    let hs: Vec<_> = (0..3)
        .map(|t| {
            let a = a.clone();
            let (i, x) = (idx[t], vals[t]);
            std::thread::spawn(move || a.set(i, x, Ordering::Relaxed))
        })
        .collect();
    for h in hs {
        h.join().unwrap();
    }
    for i in 0..len {
        let want = idx.iter().position(|&j| j == i).map(|t| vals[t]).unwrap_or(init[i]);
        assert_eq!(a.get(i, Ordering::Relaxed), want, "C13 bv set: bit {i}");
    }
}

fn linearizable(init: bool, calls: &[(bool, bool)], fin: bool) -> bool {
    // one call per task: any permutation
    fn rec(cur: bool, used: &mut Vec<bool>, calls: &[(bool, bool)], fin: bool) -> bool {
        if used.iter().all(|&u| u) {
            return cur == fin;
        }
        for t in 0..calls.len() {
            if !used[t] && calls[t].1 == cur {
                used[t] = true;
                if rec(calls[t].0, used, calls, fin) {
                    used[t] = false;
                    return true;
                }
                used[t] = false;
            }
        }
        false
    }
    rec(init, &mut vec![false; calls.len()], calls, fin)
}

fn swap_case(rng: &mut Rng) {
    let init = rng.below(2) == 1;
    let mut v = BitVec::new(10);
    v.set(3, init);
    let a: Arc<AtomicBitVec> = Arc::new(v.into());
    let n = 2 + rng.below(2) as usize;
    // bias to "everybody writes the value the bit does not have"
    let vals: Vec<bool> = (0..n).map(|_| if rng.below(3) > 0 { !init } else { init }).collect();
    let hs: Vec<_> = vals
        .iter()
        .map(|&x| {
            let a = a.clone();
            std::thread::spawn(move || (x, a.swap(3, x, Ordering::Relaxed)))
        })
        .collect();
    // half of the time a further thread writes the two neighbouring bits (it owns them)
    let nb = if rng.below(2) == 1 {
        let (x, y) = (rng.below(2) == 1, rng.below(2) == 1);
        let a2 = a.clone();
        Some((x, y, std::thread::spawn(move || {
            a2.set(4, x, Ordering::Relaxed);
            a2.set(2, y, Ordering::Relaxed);
        })))
    } else {
        None
    };
    let calls: Vec<(bool, bool)> = hs.into_iter().map(|h| h.join().unwrap()).collect();
    if let Some((x, y, h)) = nb {
        h.join().unwrap();
        assert!(a.get(4, Ordering::Relaxed) == x && a.get(2, Ordering::Relaxed) == y, "C13 swap: neighbouring bits written by their only writer hold other values");
    }
    let fin = a.get(3, Ordering::Relaxed);
    assert!(linearizable(init, &calls, fin), "C13 swap: initial {init}, calls (value, returned) {calls:?}, final {fin} not producible by any sequential order");
}

fn ef_case(rng: &mut Rng) {
    let n = 8usize;
    let u = 40 + rng.below(400) as usize;
    let mut vals: Vec<usize> = (0..n).map(|_| rng.below(u as u64 + 1) as usize).collect();
    vals.sort_unstable();
    let mut sb = EliasFanoBuilder::new(n, u);
    for &x in &vals {
        sb.push(x);
    }
    let seq = format!("{:?}", sb.build());
    let cb = Arc::new(EliasFanoConcurrentBuilder::new(n, u));
    let hs: Vec<_> = (0..2)
        .map(|t| {
            let cb = cb.clone();
            let vals = vals.clone();
            std::thread::spawn(move || {
                for i in (t..n).step_by(2) {
                    unsafe { cb.set(i, vals[i]) };
                }
            })
        })
        .collect();
    for h in hs {
        h.join().unwrap();
    }
    let cb = Arc::try_unwrap(cb).ok().unwrap();
    let conc = format!("{:?}", cb.build());
    assert_eq!(conc, seq, "C13 ef: concurrent build differs from the sequential one");
}

fn main() {
    let a: Vec<String> = std::env::args().collect();
    let start: u64 = a.get(1).and_then(|s| s.parse().ok()).unwrap_or(0);
    let n: u64 = a.get(2).and_then(|s| s.parse().ok()).unwrap_or(8);
    let only = a.get(3).cloned();
    for c in start..start + n {
        let mut rng = Rng(c.wrapping_mul(0xD1B54A32D192ED03) ^ 0xC13);
        let kind = ["bfv", "swap", "set", "ef", "bfv", "swap"][(c % 6) as usize];
        if let Some(o) = &only {
            if o != kind {
                continue;
            }
        }
        match kind {
            "bfv" => bfv_case(&mut rng),
            "swap" => swap_case(&mut rng),
            "set" => set_case(&mut rng),
            _ => ef_case(&mut rng),
        }
    }
    println!("c13miri ok: cases {start}..{}", start + n);
}
