#!/usr/bin/env python3
"""Writes seeded/INDEX.md from the meta.json files."""
import json, glob, os
ROOT = os.path.dirname(os.path.dirname(os.path.abspath(__file__)))
rows = []
for f in sorted(glob.glob(os.path.join(ROOT, "seeded", "*", "meta.json"))):
    m = json.load(open(f))
    v = m.get("verified", {})
    det = m.get("detection", {})
    dets = "; ".join(f"{k}: {'DETECTED' if r['detected'] else 'missed'} ({', '.join(s.split(' ')[0].replace('class=','') for s in r.get('signatures', [])[:3])})" for k, r in sorted(det.items()))
    ok = all(v.get(k) for k in ("applies", "demo_passes_without_change", "demo_fails_with_change", "existing_suite_passes_with_change"))
    rows.append(f"| {m['id']} | {m['breaks_property']} | {m['needs_to_manifest']} | {'yes' if ok else 'NO: ' + json.dumps(v)} | {dets} |")
with open(os.path.join(ROOT, "seeded", "INDEX.md"), "w") as f:
    f.write("# Seeded property-breaking changes\n\nEach directory holds `patch.diff` (applies to /repo with `git apply`), `demo.rs` (an integration test that fails with the change and passes without), `notes.md` (the author's notes) and `meta.json` (what was run). None of these changes is ever committed to /repo.\n\n")
    f.write("| id | breaks | needs, in order to manifest | verified (applies, demo both ways, 192 tests pass with it) | detection by the registered check |\n|---|---|---|---|---|\n")
    f.write("\n".join(rows) + "\n")
print(len(rows), "entries")
