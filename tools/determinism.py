#!/usr/bin/env python3
"""Determinism proof for the simulator: every case is executed twice in separate processes,
once by a single worker and once split over several workers, and the complete per-case
reports (outcome, buckets, steps, oracle checks, fault counters, schedule trace hashes) are
diffed byte for byte.

  tools/determinism.py [runs] [seed ...]      exit 0 iff no divergence
"""
import json, os, subprocess, sys, concurrent.futures as cf

ROOT = os.path.dirname(os.path.dirname(os.path.abspath(__file__)))
BIN = os.path.join(ROOT, "sim", "target", "checked", "simcheck")
PAIRS = [("builder", "C07"), ("builder", "C08"), ("builder", "C17"), ("atomics", "C13"), ("lenders", "C20"), ("sigstore", "C18"),
         ("bits", "C05"), ("bits", "C06"), ("bits", "C10"), ("bits", "C14"), ("ranksel", "C01"), ("ranksel", "C02"), ("serde", "C15")]


def worker(world, prop, seed, runs, stride, offset):
    args = dict(world=world, prop=prop, tier="quick", verif_seed=seed, runs=runs, stride=stride, offset=offset, profile="checked",
                replay_dir=os.path.join(ROOT, "replays", ".tmp", "det"), max_seconds=0, samples=0, journal=None, known_sigs=[])
    r = subprocess.run([BIN, "worker", json.dumps(args)], stdout=subprocess.PIPE, stderr=subprocess.DEVNULL, text=True)
    out = {}
    for l in r.stdout.splitlines():
        if l.startswith("R "):
            d = json.loads(l[2:])
            d.pop("sample", None)
            d.pop("replay", None)
            out[d["run"]] = json.dumps(d, sort_keys=True)
    return out


def main():
    runs = int(sys.argv[1]) if len(sys.argv) > 1 else 200
    seeds = [int(s, 0) for s in sys.argv[2:]] or [0x5EED5117, 1]
    bad = 0
    total = 0
    jobs = []
    with cf.ThreadPoolExecutor(max_workers=16) as ex:
        for world, prop in PAIRS:
            n = runs if world != "builder" else max(20, runs // 4)
            for seed in seeds:
                a = ex.submit(worker, world, prop, seed, n, 1, 0)
                bs = [ex.submit(worker, world, prop, seed, n, 5, k) for k in range(5)]
                jobs.append((world, prop, seed, n, a, bs))
        for world, prop, seed, n, a, bs in jobs:
            ra = a.result()
            rb = {}
            for b in bs:
                rb.update(b.result())
            diff = [k for k in sorted(set(ra) | set(rb)) if ra.get(k) != rb.get(k)]
            total += len(ra)
            if diff or len(ra) != n:
                bad += len(diff) + (0 if len(ra) == n else 1)
                print(f"DIVERGENCE {world}/{prop} seed={seed}: runs {diff[:10]} (single-process run produced {len(ra)}/{n} reports)")
            else:
                print(f"ok {world}/{prop} seed={seed}: {n} cases, two executions each, identical reports")
    print(f"{total} cases compared, {bad} divergences")
    sys.exit(1 if bad else 0)


if __name__ == "__main__":
    main()
