#!/usr/bin/env python3
"""Bookkeeping for seeded (deliberately property-breaking) changes.

  seeded.py ingest <worktree> <mutant_dir> <id> <prop> [needs...]   copy patch/demo/notes to /verif/seeded/<id>/
  seeded.py verify <id> <worktree>     in the scratch worktree: suite passes with the change; demo fails with it and passes without
  seeded.py detect <id> [quick|thorough] [prop]   apply to /repo, run ./check, undo, record in meta.json

Nothing here ever commits to /repo; `detect` always restores the working tree.
"""
import json, os, shutil, subprocess, sys, time

ROOT = os.path.dirname(os.path.dirname(os.path.abspath(__file__)))
SEEDED = os.path.join(ROOT, "seeded")


def sh(cmd, cwd=None, timeout=3600):
    r = subprocess.run(cmd, cwd=cwd, shell=isinstance(cmd, str), stdout=subprocess.PIPE, stderr=subprocess.STDOUT, text=True, timeout=timeout)
    return r.returncode, r.stdout


def load_meta(i):
    p = os.path.join(SEEDED, i, "meta.json")
    return json.load(open(p)) if os.path.exists(p) else {}


def save_meta(i, m):
    json.dump(m, open(os.path.join(SEEDED, i, "meta.json"), "w"), indent=1)


def ingest(wt, mdir, i, prop, needs):
    d = os.path.join(SEEDED, i)
    os.makedirs(d, exist_ok=True)
    for f in ("patch.diff", "demo.rs", "notes.md"):
        src = os.path.join(mdir, f)
        if os.path.exists(src):
            shutil.copy(src, os.path.join(d, f))
    m = load_meta(i)
    m.update(dict(id=i, breaks_property=prop, origin="independent sub-agent given only the property text and a scratch worktree", needs_to_manifest=needs, ran=[]))
    save_meta(i, m)


def verify(i, wt, release=False):
    d = os.path.join(SEEDED, i)
    m = load_meta(i)
    patch = os.path.join(d, "patch.diff")
    sh("git checkout -- src && rm -f tests/seeded_demo.rs", cwd=wt)
    shutil.copy(os.path.join(d, "demo.rs"), os.path.join(wt, "tests", "seeded_demo.rs"))
    rel = "--release " if release else ""
    c0, o0 = sh(f"cargo test --offline {rel}--test seeded_demo 2>&1 | tail -15", cwd=wt)
    ok_without = "test result: ok" in o0
    c, o = sh(f"git apply {patch}", cwd=wt)
    if c != 0:
        m["verified"] = dict(applies=False, out=o[-500:])
        save_meta(i, m)
        print("patch does not apply", o)
        return
    c1, o1 = sh(f"timeout 1200 cargo test --offline {rel}--test seeded_demo 2>&1 | tail -15", cwd=wt)
    fails_with = "test result: ok" not in o1
    os.remove(os.path.join(wt, "tests", "seeded_demo.rs"))
    c2, o2 = sh("cargo nextest run --workspace --no-fail-fast --test-threads 8 --offline 2>&1 | tail -4", cwd=wt)
    suite_ok = "192 passed" in o2 and "failed" not in o2.split("Summary")[-1]
    sh("git checkout -- src", cwd=wt)
    m["verified"] = dict(applies=True, demo_passes_without_change=ok_without, demo_fails_with_change=fails_with, existing_suite_passes_with_change=suite_ok,
                         suite_tail=o2.strip().splitlines()[-1] if o2.strip() else "")
    m.setdefault("ran", []).append(f"in scratch worktree {wt}: cargo test --test seeded_demo (without / with patch), cargo nextest run --workspace (with patch)")
    save_meta(i, m)
    print(i, m["verified"])


def detect(i, tier="quick", prop=None):
    d = os.path.join(SEEDED, i)
    m = load_meta(i)
    prop = prop or m["breaks_property"]
    patch = os.path.join(d, "patch.diff")
    c, o = sh(f"git -C /repo status --porcelain -- src")
    if o.strip():
        print("REFUSING: /repo has local changes", o)
        sys.exit(2)
    c, o = sh(f"git -C /repo apply {patch}")
    if c != 0:
        print("patch does not apply to /repo", o)
        return
    t0 = time.time()
    try:
        c, out = sh([os.path.join(ROOT, "check"), prop, tier], cwd=ROOT, timeout=7200)
    finally:
        sh("git -C /repo checkout -- .")
    viol = [l for l in out.splitlines() if l.startswith("VIOLATION")]
    sigs = [l.strip() for l in out.splitlines() if l.strip().startswith("class=")]
    res = dict(check=f"./check {prop} {tier}", exit=c, detected=(c == 1 and bool(viol)), violations=len(viol), signatures=sigs[:5], wall_s=round(time.time() - t0, 1))
    m.setdefault("detection", {})[f"{prop}:{tier}"] = res
    m.setdefault("ran", []).append(f"git -C /repo apply patch.diff; ./check {prop} {tier}; git -C /repo checkout -- .")
    save_meta(i, m)
    # keep replays of seeded runs out of the way
    for f in os.listdir(os.path.join(ROOT, "replays")):
        if f.endswith(".json"):
            os.remove(os.path.join(ROOT, "replays", f))
    print(i, res)


if __name__ == "__main__":
    a = sys.argv[1:]
    if a[0] == "ingest":
        ingest(a[1], a[2], a[3], a[4], " ".join(a[5:]))
    elif a[0] == "verify":
        verify(a[1], a[2], release=(len(a) > 3 and a[3] == "release"))
    elif a[0] == "detect":
        detect(a[1], a[2] if len(a) > 2 else "quick", a[3] if len(a) > 3 else None)
