#![allow(dead_code)]
//! simcheck: seeded deterministic simulation with fault injection for sux-rs.
//!
//!   simcheck run <spec.json>          parent: run the batches of a check, write evidence, exit 0/1/2
//!   simcheck worker <args.json>       worker process (spawned by the parent)
//!   simcheck replay <file>            replay a case file in a fresh process; exit 1 iff it fails as recorded
//!   simcheck replay-exec <file>       execute the case in this process; exit 1 + "REPRODUCED signature=…" on violation
//!   simcheck gen <world> <prop> <tier> <seed> <run>     print the generated case
//!   simcheck shrink-candidates <file> print the shrink candidates of a case file as a JSON list

mod core;
mod util;
mod worlds;

use crate::core::model::*;
use crate::core::parent::*;
use crate::core::worker::*;
use serde::Deserialize;

#[derive(Deserialize)]
struct BatchSpec {
    world: String,
    runs: u64,
    #[serde(default)]
    profile: Option<String>,
    #[serde(default)]
    max_seconds: u64,
}

#[derive(Deserialize)]
struct Spec {
    prop: String,
    tier: Tier,
    verif_seed: u64,
    #[serde(default = "default_workers")]
    workers: u64,
    batches: Vec<BatchSpec>,
    /// profile label -> binary
    bins: std::collections::BTreeMap<String, String>,
    evidence: String,
    known_findings: String,
    replay_dir: String,
    level: String,
    rule: String,
    #[serde(default)]
    assumptions: Vec<String>,
    #[serde(default)]
    components_real: Vec<String>,
    #[serde(default)]
    components_stubbed: Vec<String>,
    #[serde(default = "default_hang")]
    hang_secs: u64,
    #[serde(default)]
    must_fire: Vec<String>,
    #[serde(default)]
    extra: serde_json::Value,
}
fn default_workers() -> u64 {
    16
}
fn default_hang() -> u64 {
    180
}

fn tier_of(s: &str) -> Tier {
    if s == "thorough" {
        Tier::Thorough
    } else {
        Tier::Quick
    }
}

fn main() {
    let argv: Vec<String> = std::env::args().collect();
    let cmd = argv.get(1).map(|s| s.as_str()).unwrap_or("");
    match cmd {
        "run" => {
            let spec: Spec = serde_json::from_str(&std::fs::read_to_string(&argv[2]).expect("spec file")).expect("spec json");
            let me = std::env::current_exe().unwrap().to_string_lossy().to_string();
            let batches = spec
                .batches
                .iter()
                .map(|b| {
                    let profile = b.profile.clone().unwrap_or_else(|| "checked".into());
                    Batch { world: b.world.clone(), runs: b.runs, bin: spec.bins.get(&profile).cloned().unwrap_or_else(|| me.clone()), profile, max_seconds: b.max_seconds }
                })
                .collect();
            let pa = ParentArgs {
                prop: spec.prop,
                tier: spec.tier,
                verif_seed: spec.verif_seed,
                workers: spec.workers,
                batches,
                evidence: spec.evidence,
                known_findings: spec.known_findings,
                replay_dir: spec.replay_dir,
                level: spec.level,
                rule: spec.rule,
                assumptions: spec.assumptions,
                components_real: spec.components_real,
                components_stubbed: spec.components_stubbed,
                hang_secs: spec.hang_secs,
                must_fire: spec.must_fire,
                extra: spec.extra,
            };
            std::process::exit(run_parent(&pa));
        }
        "worker" => {
            let args: WorkerArgs = serde_json::from_str(&argv[2]).expect("worker args");
            let w = args.world.clone();
            with_world!(w.as_str(), run_worker(&args));
        }
        "replay" => {
            // fresh-process replay with classification of aborts and hangs
            let me = std::env::current_exe().unwrap().to_string_lossy().to_string();
            let rf: ReplayFile = serde_json::from_str(&std::fs::read_to_string(&argv[2]).expect("replay file")).expect("replay json");
            match confirm_replay(&me, &argv[2], 180) {
                Ok(true) => {
                    println!("VIOLATION property={} replay={}", rf.property, argv[2]);
                    println!("  class={} signature={}", rf.class, rf.signature);
                    std::process::exit(1);
                }
                Ok(false) => {
                    println!("replay of {} did not fail (recorded: {} {})", argv[2], rf.class, rf.signature);
                    std::process::exit(0);
                }
                Err(e) => {
                    eprintln!("HARNESS-ERROR {e}");
                    std::process::exit(2);
                }
            }
        }
        "replay-exec" => {
            let rf: ReplayFile = serde_json::from_str(&std::fs::read_to_string(&argv[2]).expect("replay file")).expect("replay json");
            let w = rf.world.clone();
            let res = with_world!(w.as_str(), replay_file(&rf));
            match res {
                Ok(o) => match o.violation {
                    Some(v) => {
                        println!("REPRODUCED signature={}", v.signature);
                        println!("class={} observed={} expected={}", v.class, v.observed, v.expected);
                        std::process::exit(1);
                    }
                    None => {
                        println!("NO-VIOLATION");
                        std::process::exit(0);
                    }
                },
                Err(e) => {
                    eprintln!("HARNESS-ERROR {e}");
                    std::process::exit(2);
                }
            }
        }
        "gen" => {
            let (w, prop, tier, seed, run) = (&argv[2], &argv[3], tier_of(&argv[4]), argv[5].parse::<u64>().unwrap(), argv[6].parse::<u64>().unwrap());
            let v = with_world!(w.as_str(), generate_json(prop, tier, seed, run));
            println!("{}", serde_json::to_string(&v).unwrap());
        }
        "shrink-candidates" => {
            let rf: ReplayFile = serde_json::from_str(&std::fs::read_to_string(&argv[2]).expect("file")).expect("json");
            let w = rf.world.clone();
            let v = with_world!(w.as_str(), shrink_candidates_json(&rf)).unwrap_or_default();
            println!("{}", serde_json::to_string(&v).unwrap());
        }
        _ => {
            eprintln!("usage: simcheck run|worker|replay|replay-exec|gen|shrink-candidates …");
            std::process::exit(2);
        }
    }
}
