//! `ranksel` world (C01, C02): rank and select structures, alone and stacked, over bit
//! vectors whose tail state (stale bits after pop/truncation, garbage in caller-supplied
//! storage) is produced by the simulator.

use crate::core::model::*;
use crate::core::rng::{splitmix64, Rng};
use crate::core::world::*;
use serde::{Deserialize, Serialize};
use sux::bits::BitVec;
use sux::rank_sel::*;
use sux::traits::rank_sel::*;

#[derive(Clone, Debug, Serialize, Deserialize, PartialEq)]
pub struct RanksCase {
    pub len: usize,
    /// "uniform" | "ones" | "zeros" | "dense_sparse" | "sparse_dense" | "gap16" | "blocks" | "few" | "quantum"
    pub shape: String,
    /// density numerator over 1000 (uniform, halves)
    pub dens: u32,
    pub seed: u64,
    /// "clean" | "pop" (built longer with ones beyond, then popped/truncated) | "raw" (from_raw_parts over garbage) | "raw_extra" (plus spare garbage words)
    pub tail: String,
    pub structure: String,
    /// drawn parameters for the non-const structures
    pub p1: usize,
    pub p2: usize,
    pub p3: usize,
}

pub const RANK_STRUCTS: &[&str] = &[
    "rank9", "ranksmall0", "ranksmall1", "ranksmall2", "ranksmall3", "ranksmall4",
    // rank structures under selection wrappers
    "sa(rank9)", "sac(rank9)", "sza(sa(rank9))", "select9", "ss0", "ss1", "ss2", "ss3", "ss4", "szs0(ss0)", "szs3(ss3)", "rank9(sa)", "ranksmall2(sza(sa))", "sza(select9)",
    "szac(sac(ranksmall4))", "map:sa->rank9", "map:sac62->ranksmall1", "map:rank9->sa", "map:ranksmall3->sza",
    // the same structures over boxed and borrowed bit vectors
    "box:rank9", "box:ranksmall1", "box:ranksmall4", "ref:rank9", "ref:ranksmall2", "box:select9", "ref:ss2", "box:sza(sa(rank9))",
    // AddNumBits above other structures (it forwards, or re-implements, every other trait)
    "anb(sza(rank9))", "sa(anb(sza(rank9)))", "anb(ranksmall2)",
];
pub const SELECT_STRUCTS: &[&str] = &[
    "sa", "sa_span", "sac", "sac_6_0", "sac_8_2", "sac_4_1", "sac_10_3", "sza", "szac", "szac_6_0", "szac_9_2", "select9", "ss0", "ss1", "ss2", "ss3", "ss4", "szs0", "szs1", "szs2", "szs3",
    "szs4", "sa(rank9)", "sac(rank9)", "sza(sa)", "szac(sac)", "sza(sa(rank9))", "szs0(ss0)", "szs3(ss3)", "sza(select9)", "rank9(sa)", "ranksmall2(sza(sa))", "szac(sac(ranksmall4))", "sa(sza)",
    "ss1(ranksmall1)+sza", "map:sa->rank9", "map:sac62->ranksmall1", "map:szac51->sac", "map:sza->sa", "map:rank9->sa", "map:ranksmall3->sza", "map:sac->addnumbits",
    "box:sa", "ref:sa", "box:sac", "box:sza", "ref:szac", "box:select9", "ref:select9", "box:ss3", "ref:szs1", "box:sza(sa)", "ref:ss2", "box:sza(sa(rank9))",
    "anb(sza(rank9))", "sa(anb(sza(rank9)))", "anb(sza(sa))", "anb(select9)", "anb(szs1(ss1))",
];

fn bit_of(c: &RanksCase, i: usize, total: usize) -> bool {
    let mut x = c.seed ^ (i as u64).wrapping_mul(0x9E3779B97F4A7C15);
    let r = splitmix64(&mut x) % 1000;
    let d = c.dens as u64;
    match c.shape.as_str() {
        "ones" => true,
        "zeros" => false,
        "dense_sparse" => {
            if i < total / 2 {
                r < 900
            } else {
                i % (1 + (c.dens as usize).max(1) * 97) == 0
            }
        }
        "sparse_dense" => {
            if i >= total / 2 {
                r < 900
            } else {
                i % (1 + (c.dens as usize).max(1) * 97) == 0
            }
        }
        "gap16" => {
            // ones separated by gaps of exactly 2^16 and 2^16 + 1
            let period = (1usize << 16) + (c.seed as usize % 2);
            i % period == (c.seed as usize >> 8) % period.min(total.max(1))
        }
        "blocks" => {
            // 512-bit blocks that are completely full, completely empty, or random
            match (c.seed >> ((i / 512) % 29)) & 3 {
                0 => true,
                1 => false,
                _ => r < d,
            }
        }
        "words" => match (c.seed >> ((i / 64) % 31)) & 3 {
            0 => true,
            1 => false,
            _ => r < d,
        },
        "few" => i % (total / (1 + c.dens as usize % 7) + 1) == (c.seed as usize) % (total / (1 + c.dens as usize % 7) + 1),
        _ => r < d,
    }
}

/// Build the logical bits and the BitVec carrying them with the requested tail state.
fn build(c: &RanksCase) -> (Vec<bool>, BitVec<Vec<usize>>, u64) {
    let len = c.len;
    let mut bits: Vec<bool> = if c.shape == "gapmix" || c.shape == "gapmix0" {
        // ones (gapmix) or zeros (gapmix0) separated by gaps drawn from {1, 2, 2^16-1, 2^16, 2^16+1}: inventory
        // spans land exactly on the 16-bit span threshold
        let fill = c.shape == "gapmix0";
        let mut v = vec![fill; len];
        let mut pos = (c.seed as usize >> 20) % 97;
        let mut k = 0u64;
        while pos < len {
            v[pos] = !fill;
            let mut x = c.seed ^ k.wrapping_mul(0x9E3779B97F4A7C15);
            k += 1;
            pos += [1usize, 1, 2, 65535, 65536, 65536, 65536, 65537, 65537][(splitmix64(&mut x) % 9) as usize];
        }
        v
    } else if c.shape == "gappow" || c.shape == "gappow0" {
        // runs of ones (gappow) or zeros (gappow0) at a constant distance 2^j, j in 8..=15: the span of 2^L
        // consecutive ones is exactly 2^(j+L), i.e. inventory spans sit exactly on the power-of-two thresholds
        // between 2^16 and 2^21 that separate the subinventory encodings
        let fill = c.shape == "gappow0";
        let mut v = vec![fill; len];
        let mut pos = (c.seed as usize >> 20) % 3;
        let mut k = 0u64;
        'outer: loop {
            let mut x = c.seed ^ k.wrapping_mul(0x9E3779B97F4A7C15);
            k += 1;
            let r = splitmix64(&mut x);
            let gap = 1usize << (8 + r % 8);
            let run = 48 + (r >> 8) as usize % 210;
            for _ in 0..run {
                if pos >= len {
                    break 'outer;
                }
                v[pos] = !fill;
                pos += gap;
            }
            // now and then shift by one, so that both sides of every threshold occur
            pos += [0usize, 0, 1, gap - 1][(r >> 20) as usize % 4];
        }
        v
    } else {
        (0..len).map(|i| bit_of(c, i, len)).collect()
    };
    if c.shape == "quantum" && len > 0 {
        // make the number of ones an exact multiple of a power of two, with a ragged tail
        let q = 1usize << (c.dens % 10);
        let ones = bits.iter().filter(|&&b| b).count();
        let mut excess = ones % q;
        for b in bits.iter_mut().rev() {
            if excess == 0 {
                break;
            }
            if *b {
                *b = false;
                excess -= 1;
            }
        }
    }
    let mut fired = 0u64;
    let bv = match c.tail.as_str() {
        "pop" => {
            // longer vector full of ones beyond len, then popped / truncated: stale bits stay in storage
            let extra = 1 + (c.seed as usize % 130);
            let mut v: BitVec = bits.iter().copied().chain((0..extra).map(|_| true)).collect();
            if c.seed % 2 == 0 {
                for _ in 0..extra {
                    v.pop();
                }
            } else {
                v.resize(len, false);
            }
            fired = 1;
            v
        }
        "raw" | "raw_extra" => {
            let extra = if c.tail == "raw_extra" { 1 + (c.seed as usize % 3) } else { 0 };
            let nw = len.div_ceil(64) + extra;
            let mut w: Vec<usize> = (0..nw)
                .map(|i| {
                    let mut x = c.seed ^ 0xfeed ^ (i as u64);
                    if c.seed % 3 == 0 {
                        usize::MAX
                    } else {
                        splitmix64(&mut x) as usize
                    }
                })
                .collect();
            for (i, &b) in bits.iter().enumerate() {
                if b {
                    w[i / 64] |= 1 << (i % 64);
                } else {
                    w[i / 64] &= !(1 << (i % 64));
                }
            }
            fired = 1;
            unsafe { BitVec::from_raw_parts(w, len) }
        }
        _ => bits.iter().copied().collect(),
    };
    (bits, bv, fired)
}

/// Vectors beyond 2^32 bits (RankSmall's upper counters): built word by word from random gaps, no per-bit model.
fn build_huge(c: &RanksCase) -> (Vec<usize>, BitVec<Vec<usize>>) {
    let len = c.len;
    let complement = c.shape == "huge0";
    let mut words = vec![if complement { usize::MAX } else { 0usize }; len.div_ceil(64)];
    let mut ones = Vec::new();
    let mut rng = Rng::new(c.seed);
    // beyond 2^33 bits only a few thousand ones, so that most pages of the backing store stay untouched
    let avg = if len > (1usize << 33) { 1usize << (20 + c.dens as usize % 4) } else { 1usize << (8 + c.dens as usize % 10) };
    let mut pos = rng.usize_below(avg);
    while pos < len {
        if complement {
            words[pos / 64] &= !(1 << (pos % 64));
        } else {
            words[pos / 64] |= 1 << (pos % 64);
        }
        ones.push(pos);
        // dense runs now and then, so that blocks around the 2^32 boundary are not all alike
        pos += if rng.chance(1, 5) { 1 } else { 1 + rng.usize_below(2 * avg) };
    }
    // stale bits beyond len in the last word
    if len % 64 != 0 {
        if c.tail != "clean" && !complement {
            *words.last_mut().unwrap() |= usize::MAX << (len % 64);
        }
        if c.tail == "clean" && complement {
            *words.last_mut().unwrap() &= !(usize::MAX << (len % 64));
        }
    }
    (ones, unsafe { BitVec::from_raw_parts(words, len) })
}

struct Model {
    len: usize,
    /// positions of the ones (empty and `!have_ones` for huge mostly-ones vectors)
    ones: Vec<usize>,
    /// positions of the zeros (empty and `!have_zeros` for huge mostly-zeros vectors)
    zeros: Vec<usize>,
    have_ones: bool,
    have_zeros: bool,
}

impl Model {
    fn rank(&self, p: usize) -> usize {
        if self.have_ones {
            self.ones.partition_point(|&x| x < p)
        } else {
            p - self.zeros.partition_point(|&x| x < p)
        }
    }
    fn n_ones(&self) -> usize {
        if self.have_ones {
            self.ones.len()
        } else {
            self.len - self.zeros.len()
        }
    }
    fn bit(&self, i: usize) -> bool {
        if self.have_ones {
            self.ones.binary_search(&i).is_ok()
        } else {
            self.zeros.binary_search(&i).is_err()
        }
    }
}

fn positions(m: &Model, seed: u64) -> Vec<usize> {
    let n = m.len;
    let mut v: Vec<usize> = Vec::new();
    if n <= 3000 {
        v.extend(0..=n + 3);
    } else {
        let mut rng = Rng::new(seed ^ 0x51);
        for b in (0..=n).step_by(512) {
            for d in [0usize, 1, 63, 64, 65, 255, 256, 511] {
                if rng.chance(1, 8) || b < 2048 || b + 2048 > n {
                    v.push((b + d).min(n));
                }
            }
        }
        for _ in 0..3000 {
            v.push(rng.urange(0, n));
        }
        v.extend([n.saturating_sub(1), n, n + 1, n + 64, n + 513]);
    }
    v.push(usize::MAX);
    v.push(n.wrapping_add(1 << 40));
    v
}

fn ranks_to_probe(count: usize, seed: u64) -> Vec<usize> {
    if count <= 5000 {
        (0..count).collect()
    } else {
        let mut rng = Rng::new(seed ^ 0x77);
        let mut v: Vec<usize> = (0..1500).map(|_| rng.usize_below(count)).collect();
        v.extend(0..300);
        v.extend(count - 300..count);
        for q in (0..count).step_by((count / 700).max(1)) {
            v.push(q);
            if q > 0 {
                v.push(q - 1);
            }
        }
        // inventory quanta boundaries
        for k in 4..17 {
            let q = 1usize << k;
            let mut x = q;
            let mut c = 0;
            while x < count && c < 40 {
                v.push(x);
                v.push(x - 1);
                x += q;
                c += 1;
            }
        }
        v
    }
}

macro_rules! chk_basic {
    ($s:expr, $m:expr, $out:expr, $name:expr) => {{
        set_op("basic");
        $out.checks += 2;
        if BitLength::len(&$s) != $m.len {
            $out.fail(Violation::new("len", format!("ranksel:{}:len", $name), format!("{}", BitLength::len(&$s)), format!("{}", $m.len)));
        }
        // bit indexing through the wrappers
        let n = $m.len;
        let stride = (n / 2000).max(1);
        let mut i = 0;
        while i < n && $out.violation.is_none() {
            let want = $m.bit(i);
            $out.checks += 1;
            if $s[i] != want {
                $out.fail(Violation::new("index", format!("ranksel:{}:index", $name), format!("s[{i}] = {}", $s[i]), format!("{want}")));
            }
            i += stride;
        }
    }};
}

macro_rules! chk_numbits {
    ($s:expr, $m:expr, $out:expr, $name:expr, $tail:expr) => {{
        set_op("num_ones");
        $out.checks += 2;
        if $out.violation.is_none() && NumBits::num_ones(&$s) != $m.n_ones() {
            $out.fail(Violation::new(
                "num_ones",
                format!("ranksel:{}:num_ones:{}", $name, $tail),
                format!("num_ones() = {} (len {})", NumBits::num_ones(&$s), $m.len),
                format!("{}", $m.n_ones()),
            ));
        }
        if $out.violation.is_none() && ($s.num_ones(), $s.num_zeros()) != ($m.n_ones(), $m.len - $m.n_ones()) {
            $out.fail(Violation::new("num_ones", format!("ranksel:{}:num_ones_method_syntax:{}", $name, $tail), format!("{} ones, {} zeros", $s.num_ones(), $s.num_zeros()), format!("{} ones of {}", $m.n_ones(), $m.len)));
        }
        if $out.violation.is_none() && NumBits::num_zeros(&$s) != $m.len - $m.n_ones() {
            $out.fail(Violation::new("num_zeros", format!("ranksel:{}:num_zeros:{}", $name, $tail), format!("{}", NumBits::num_zeros(&$s)), format!("{}", $m.len - $m.n_ones())));
        }
    }};
}

macro_rules! chk_rank {
    ($s:expr, $m:expr, $out:expr, $name:expr, $tail:expr, $seed:expr) => {{
        set_op("rank");
        for p in positions($m, $seed) {
            if $out.violation.is_some() {
                break;
            }
            let want = $m.rank(p.min($m.len));
            let got = Rank::rank(&$s, p);
            $out.checks += 2;
            if got != want {
                let class = if p >= $m.len { "past_end" } else if p % 512 == 0 { "block_boundary" } else { "inside" };
                $out.fail(Violation::new("rank", format!("ranksel:{}:rank:{}:{}", $name, $tail, class), format!("rank({p}) = {got} (len {}, ones {})", $m.len, $m.n_ones()), format!("{want}")));
                break;
            }
            let gz = RankZero::rank_zero(&$s, p);
            // the property states rank_zero(p) = p - rank(p) for every p (also past the end)
            let wz = p - want;
            if gz != wz {
                $out.fail(Violation::new("rank_zero", format!("ranksel:{}:rank_zero:{}", $name, $tail), format!("rank_zero({p}) = {gz}"), format!("{wz}")));
            }
            // the same queries in the method-call syntax a user writes: an inherent method on one
            // concrete structure type shadows the trait method there and only there
            let (gm, gzm) = ($s.rank(p), $s.rank_zero(p));
            if (gm, gzm) != (want, wz) && $out.violation.is_none() {
                $out.fail(Violation::new("rank", format!("ranksel:{}:rank_method_syntax:{}", $name, $tail), format!("s.rank({p}) = {gm}, s.rank_zero({p}) = {gzm}"), format!("{want}, {wz}")));
            }
        }
    }};
}

macro_rules! chk_select {
    ($s:expr, $m:expr, $out:expr, $name:expr, $tail:expr, $seed:expr) => {{
        set_op("select");
        // (huge mostly-ones vectors carry no one positions in the model)
        let cnt = if $m.have_ones { $m.ones.len() } else { 0 };
        for r in ranks_to_probe(cnt, $seed) {
            if $out.violation.is_some() {
                break;
            }
            let got = Select::select(&$s, r);
            $out.checks += 1;
            if got == Some($m.ones[r]) && $s.select(r) != got {
                $out.fail(Violation::new("select", format!("ranksel:{}:select_method_syntax:{}", $name, $tail), format!("s.select({r}) = {:?}", $s.select(r)), format!("{got:?}")));
            }
            if got != Some($m.ones[r]) {
                $out.fail(Violation::new("select", format!("ranksel:{}:select:{}", $name, $tail), format!("select({r}) = {got:?} (len {}, ones {cnt})", $m.len), format!("Some({})", $m.ones[r])));
            }
        }
        for r in [cnt, cnt + 1, cnt + 64, usize::MAX] {
            if $out.violation.is_some() || !$m.have_ones {
                break;
            }
            let got = Select::select(&$s, r);
            $out.checks += 1;
            if got.is_some() {
                $out.fail(Violation::new("select", format!("ranksel:{}:select_past_count:{}", $name, $tail), format!("select({r}) = {got:?} with {cnt} ones"), "None"));
            }
        }
    }};
}

macro_rules! chk_select_zero {
    ($s:expr, $m:expr, $out:expr, $name:expr, $tail:expr, $seed:expr) => {{
        set_op("select_zero");
        // (huge vectors carry no zero positions in the model)
        let cnt = if $m.have_zeros { $m.zeros.len() } else { 0 };
        for r in ranks_to_probe(cnt, $seed ^ 9) {
            if $out.violation.is_some() {
                break;
            }
            let got = SelectZero::select_zero(&$s, r);
            $out.checks += 1;
            if got == Some($m.zeros[r]) && $s.select_zero(r) != got {
                $out.fail(Violation::new("select_zero", format!("ranksel:{}:select_zero_method_syntax:{}", $name, $tail), format!("s.select_zero({r}) = {:?}", $s.select_zero(r)), format!("{got:?}")));
            }
            if got != Some($m.zeros[r]) {
                $out.fail(Violation::new(
                    "select_zero",
                    format!("ranksel:{}:select_zero:{}", $name, $tail),
                    format!("select_zero({r}) = {got:?} (len {}, zeros {cnt})", $m.len),
                    format!("Some({})", $m.zeros[r]),
                ));
            }
        }
        for r in [cnt, cnt + 1, usize::MAX] {
            if $out.violation.is_some() || !$m.have_zeros {
                break;
            }
            let got = SelectZero::select_zero(&$s, r);
            $out.checks += 1;
            if got.is_some() {
                $out.fail(Violation::new("select_zero", format!("ranksel:{}:select_zero_past_count:{}", $name, $tail), format!("select_zero({r}) = {got:?} with {cnt} zeros"), "None"));
            }
        }
    }};
}

fn tail_class(c: &RanksCase) -> &'static str {
    match c.tail.as_str() {
        "pop" => "stale_tail",
        "raw" => "dirty_tail",
        "raw_extra" => "dirty_words",
        _ => "clean",
    }
}

/// Build the named structure over `bv` and run every check the property asks for.
fn run_structure(prop: &str, c: &RanksCase, bv: BitVec<Vec<usize>>, m: &Model, out: &mut Outcome) {
    let name = c.structure.as_str();
    let tail = tail_class(c);
    let seed = c.seed;
    let do_rank = prop == "C01";
    let (p1, p2, p3) = (c.p1, c.p2, c.p3);
    // rank only
    macro_rules! rank_only {
        ($s:expr) => {{
            let s = $s;
            chk_basic!(s, m, out, name);
            chk_numbits!(s, m, out, name, tail);
            if do_rank {
                chk_rank!(s, m, out, name, tail, seed);
            }
        }};
    }
    macro_rules! sel {
        ($s:expr) => {{
            let s = $s;
            chk_basic!(s, m, out, name);
            chk_numbits!(s, m, out, name, tail);
            if !do_rank {
                chk_select!(s, m, out, name, tail, seed);
            }
        }};
    }
    macro_rules! selz {
        ($s:expr) => {{
            let s = $s;
            chk_basic!(s, m, out, name);
            chk_numbits!(s, m, out, name, tail);
            if !do_rank {
                chk_select_zero!(s, m, out, name, tail, seed);
            }
        }};
    }
    macro_rules! rank_sel {
        ($s:expr) => {{
            let s = $s;
            chk_basic!(s, m, out, name);
            chk_numbits!(s, m, out, name, tail);
            if do_rank {
                chk_rank!(s, m, out, name, tail, seed);
            } else {
                chk_select!(s, m, out, name, tail, seed);
            }
        }};
    }
    macro_rules! rank_sel_selz {
        ($s:expr) => {{
            let s = $s;
            chk_basic!(s, m, out, name);
            chk_numbits!(s, m, out, name, tail);
            if do_rank {
                chk_rank!(s, m, out, name, tail, seed);
            } else {
                chk_select!(s, m, out, name, tail, seed);
                chk_select_zero!(s, m, out, name, tail, seed);
            }
        }};
    }
    macro_rules! rank_sel_selz_nosel {
        ($s:expr) => {{
            let s = $s;
            chk_basic!(s, m, out, name);
            chk_numbits!(s, m, out, name, tail);
            if do_rank {
                chk_rank!(s, m, out, name, tail, seed);
            } else {
                chk_select_zero!(s, m, out, name, tail, seed);
            }
        }};
    }
    macro_rules! sel_selz {
        ($s:expr) => {{
            let s = $s;
            chk_basic!(s, m, out, name);
            chk_numbits!(s, m, out, name, tail);
            if !do_rank {
                chk_select!(s, m, out, name, tail, seed);
                chk_select_zero!(s, m, out, name, tail, seed);
            }
        }};
    }
    let inv = p1 % 17; // log2 ones per inventory 0..16
    let sub = p2 % 6; // log2 words per subinventory 0..5
    let span = 1usize << (4 + p3 % 12);
    let blocks = 1 + p3 % 20;
    set_op(&format!("build:{name}"));
    match name {
        n if n.starts_with("box:") => {
            let bvb: BitVec<Box<[usize]>> = bv.into();
            match &n[4..] {
                "rank9" => rank_only!(Rank9::new(bvb)),
                "ranksmall1" => rank_only!(RankSmall::<1, 9, _>::new(bvb)),
                "ranksmall4" => rank_only!(RankSmall::<3, 13, _>::new(bvb)),
                "select9" => rank_sel!(Select9::new(Rank9::new(bvb))),
                "sza(sa(rank9))" => rank_sel_selz!(SelectZeroAdapt::with_inv(SelectAdapt::with_inv(Rank9::new(bvb), inv, sub), (inv + 5) % 17, sub)),
                "sa" => sel!(SelectAdapt::with_inv(AddNumBits::from(bvb), inv, sub)),
                "sac" => sel!(SelectAdaptConst::<_, _>::new(AddNumBits::from(bvb))),
                "sza" => selz!(SelectZeroAdapt::with_inv(AddNumBits::from(bvb), inv, sub)),
                "ss3" => rank_sel!(SelectSmall::<1, 11, _>::with_inv(RankSmall::<1, 11, _>::new(bvb), blocks)),
                "sza(sa)" => sel_selz!(SelectZeroAdapt::with_inv(SelectAdapt::with_inv(AddNumBits::from(bvb), inv, sub), (inv + 3) % 17, (sub + 1) % 6)),
                other => panic!("unknown boxed structure {other}"),
            }
        }
        n if n.starts_with("ref:") => {
            let (words, l) = bv.into_raw_parts();
            let bvr: BitVec<&[usize]> = unsafe { BitVec::from_raw_parts(&words[..], l) };
            match &n[4..] {
                "rank9" => rank_only!(Rank9::new(bvr)),
                "ranksmall2" => rank_only!(RankSmall::<1, 10, _>::new(bvr)),
                "ss2" => rank_sel!(SelectSmall::<1, 10, _>::with_inv(RankSmall::<1, 10, _>::new(bvr), blocks)),
                "sa" => sel!(SelectAdapt::with_inv(AddNumBits::from(bvr), inv, sub)),
                "szac" => selz!(SelectZeroAdaptConst::<_, _>::new(AddNumBits::from(bvr))),
                "select9" => rank_sel!(Select9::new(Rank9::new(bvr))),
                "szs1" => selz!(SelectZeroSmall::<1, 9, _>::with_inv(RankSmall::<1, 9, _>::new(bvr), blocks)),
                other => panic!("unknown borrowed structure {other}"),
            }
        }
        "anb(sza(rank9))" => rank_sel_selz_nosel!(AddNumBits::from(SelectZeroAdapt::with_inv(Rank9::new(bv), inv, sub))),
        "sa(anb(sza(rank9)))" => rank_sel_selz!(SelectAdapt::with_inv(AddNumBits::from(SelectZeroAdapt::with_inv(Rank9::new(bv), (inv + 2) % 17, sub)), inv, sub)),
        "anb(ranksmall2)" => rank_only!(AddNumBits::from(RankSmall::<1, 10>::new(bv))),
        "anb(sza(sa))" => sel_selz!(AddNumBits::from(SelectZeroAdapt::with_inv(SelectAdapt::with_inv(AddNumBits::from(bv), inv, sub), (inv + 3) % 17, (sub + 1) % 6))),
        "anb(select9)" => rank_sel!(AddNumBits::from(Select9::new(Rank9::new(bv)))),
        "anb(szs1(ss1))" => rank_sel_selz!(AddNumBits::from(SelectZeroSmall::<1, 9, _>::with_inv(SelectSmall::<1, 9, _>::with_inv(RankSmall::<1, 9>::new(bv), blocks), 1 + blocks % 5))),
        "rank9" => rank_only!(Rank9::new(bv)),
        "ranksmall0" => rank_only!(RankSmall::<2, 9>::new(bv)),
        "ranksmall1" => rank_only!(RankSmall::<1, 9>::new(bv)),
        "ranksmall2" => rank_only!(RankSmall::<1, 10>::new(bv)),
        "ranksmall3" => rank_only!(RankSmall::<1, 11>::new(bv)),
        "ranksmall4" => rank_only!(RankSmall::<3, 13>::new(bv)),
        "sa" => sel!(SelectAdapt::with_inv(AddNumBits::from(bv), inv, sub)),
        "sa_span" => sel!(SelectAdapt::with_span(AddNumBits::from(bv), span, sub)),
        "sac" => sel!(SelectAdaptConst::<_, _>::new(AddNumBits::from(bv))),
        "sac_6_0" => sel!(SelectAdaptConst::<_, _, 6, 0>::new(AddNumBits::from(bv))),
        "sac_8_2" => sel!(SelectAdaptConst::<_, _, 8, 2>::new(AddNumBits::from(bv))),
        "sac_4_1" => sel!(SelectAdaptConst::<_, _, 4, 1>::new(AddNumBits::from(bv))),
        "sac_10_3" => sel!(SelectAdaptConst::<_, _, 10, 3>::new(AddNumBits::from(bv))),
        "sza" => selz!(SelectZeroAdapt::with_inv(AddNumBits::from(bv), inv, sub)),
        "szac" => selz!(SelectZeroAdaptConst::<_, _>::new(AddNumBits::from(bv))),
        "szac_6_0" => selz!(SelectZeroAdaptConst::<_, _, 6, 0>::new(AddNumBits::from(bv))),
        "szac_9_2" => selz!(SelectZeroAdaptConst::<_, _, 9, 2>::new(AddNumBits::from(bv))),
        "select9" => rank_sel!(Select9::new(Rank9::new(bv))),
        "ss0" => rank_sel!(SelectSmall::<2, 9, _>::with_inv(RankSmall::<2, 9>::new(bv), blocks)),
        "ss1" => rank_sel!(SelectSmall::<1, 9, _>::with_inv(RankSmall::<1, 9>::new(bv), blocks)),
        "ss2" => rank_sel!(SelectSmall::<1, 10, _>::with_inv(RankSmall::<1, 10>::new(bv), blocks)),
        "ss3" => rank_sel!(SelectSmall::<1, 11, _>::with_inv(RankSmall::<1, 11>::new(bv), blocks)),
        "ss4" => rank_sel!(SelectSmall::<3, 13, _>::with_inv(RankSmall::<3, 13>::new(bv), blocks)),
        "szs0" => selz!(SelectZeroSmall::<2, 9, _>::with_inv(RankSmall::<2, 9>::new(bv), blocks)),
        "szs1" => selz!(SelectZeroSmall::<1, 9, _>::with_inv(RankSmall::<1, 9>::new(bv), blocks)),
        "szs2" => selz!(SelectZeroSmall::<1, 10, _>::with_inv(RankSmall::<1, 10>::new(bv), blocks)),
        "szs3" => selz!(SelectZeroSmall::<1, 11, _>::with_inv(RankSmall::<1, 11>::new(bv), blocks)),
        "szs4" => selz!(SelectZeroSmall::<3, 13, _>::with_inv(RankSmall::<3, 13>::new(bv), blocks)),
        "sa(rank9)" => rank_sel!(SelectAdapt::with_inv(Rank9::new(bv), inv, sub)),
        "sac(rank9)" => rank_sel!(SelectAdaptConst::<_, _, 7, 1>::new(Rank9::new(bv))),
        "sza(sa)" => sel_selz!(SelectZeroAdapt::with_inv(SelectAdapt::with_inv(AddNumBits::from(bv), inv, sub), (inv + 3) % 17, (sub + 1) % 6)),
        "szac(sac)" => sel_selz!(SelectZeroAdaptConst::<_, _, 8, 1>::new(SelectAdaptConst::<_, _, 5, 2>::new(AddNumBits::from(bv)))),
        "sza(sa(rank9))" => rank_sel_selz!(SelectZeroAdapt::with_inv(SelectAdapt::with_inv(Rank9::new(bv), inv, sub), (inv + 5) % 17, sub)),
        "szs0(ss0)" => rank_sel_selz!(SelectZeroSmall::<2, 9, _>::with_inv(SelectSmall::<2, 9, _>::with_inv(RankSmall::<2, 9>::new(bv), blocks), 1 + (blocks + 3) % 20)),
        "szs3(ss3)" => rank_sel_selz!(SelectZeroSmall::<1, 11, _>::with_inv(SelectSmall::<1, 11, _>::with_inv(RankSmall::<1, 11>::new(bv), blocks), 1 + (blocks + 7) % 20)),
        "sza(select9)" => rank_sel_selz!(SelectZeroAdapt::with_inv(Select9::new(Rank9::new(bv)), inv, sub)),
        "rank9(sa)" => rank_sel!(Rank9::new(SelectAdapt::with_inv(AddNumBits::from(bv), inv, sub))),
        "ranksmall2(sza(sa))" => rank_sel_selz!(RankSmall::<1, 10, _>::new(SelectZeroAdapt::with_inv(SelectAdapt::with_inv(AddNumBits::from(bv), inv, sub), sub + 2, 1))),
        "szac(sac(ranksmall4))" => rank_sel_selz!(SelectZeroAdaptConst::<_, _, 6, 1>::new(SelectAdaptConst::<_, _, 9, 0>::new(RankSmall::<3, 13>::new(bv)))),
        "sa(sza)" => sel_selz!(SelectAdapt::with_span(SelectZeroAdapt::with_span(AddNumBits::from(bv), span, sub), span * 2, (sub + 2) % 6)),
        "ss1(ranksmall1)+sza" => rank_sel_selz!(SelectZeroAdapt::with_inv(SelectSmall::<1, 9, _>::with_inv(RankSmall::<1, 9>::new(bv), blocks), inv, sub)),
        // stacks assembled with the (unsafe) `map` methods, the documented way of swapping the inner layer
        "map:sa->rank9" => rank_sel!(unsafe { SelectAdapt::with_inv(AddNumBits::from(bv), inv, sub).map(|b| Rank9::new(b.into_inner())) }),
        "map:sac62->ranksmall1" => rank_sel!(unsafe { SelectAdaptConst::<_, _, 6, 2>::new(AddNumBits::from(bv)).map(|b| RankSmall::<1, 9>::new(b.into_inner())) }),
        "map:szac51->sac" => sel_selz!(unsafe { SelectZeroAdaptConst::<_, _, 5, 1>::new(AddNumBits::from(bv)).map(|b| SelectAdaptConst::<_, _, 7, 0>::new(b)) }),
        "map:sza->sa" => sel_selz!(unsafe { SelectZeroAdapt::with_inv(AddNumBits::from(bv), inv, sub).map(|b| SelectAdapt::with_inv(b, (inv + 2) % 17, sub)) }),
        "map:rank9->sa" => rank_sel!(unsafe { Rank9::new(AddNumBits::from(bv)).map(|b| SelectAdapt::with_inv(b, inv, sub)) }),
        "map:ranksmall3->sza" => rank_sel_selz!(unsafe {
            RankSmall::<1, 11, _>::new(SelectAdapt::with_inv(AddNumBits::from(bv), inv, sub)).map(|b| SelectZeroAdapt::with_inv(b, (inv + 1) % 17, sub))
        }),
        "map:sac->addnumbits" => sel!(unsafe { SelectAdaptConst::<_, _, 9, 1>::new(AddNumBits::from(bv)).map(|b| AddNumBits::from(b.into_inner())) }),
        other => panic!("unknown structure {other}"),
    }
}

pub struct RankselWorld;

impl World for RankselWorld {
    type Case = RanksCase;
    const NAME: &'static str = "ranksel";

    fn generate(prop: &str, tier: Tier, run: u64, rng: &mut Rng) -> RanksCase {
        let list = if prop == "C01" { RANK_STRUCTS } else { SELECT_STRUCTS };
        let structure = list[(run as usize) % list.len()].to_string();
        let big = rng.chance(1, if tier == Tier::Quick { 150 } else { 40 });
        let len = if big {
            *rng.pick(&[1usize << 20, (1 << 20) + 1, (1 << 22) - 1, 3_000_017, 1 << 24])
        } else {
            match rng.below(12) {
                0 => 0,
                1 => rng.urange(1, 3),
                2 => 64 * rng.urange(1, 40),
                3 => 512 * rng.urange(1, 12),
                4 => 512 * rng.urange(1, 12) + *rng.pick(&[1usize, 63, 64, 65, 511]),
                5 => 64 * (4 * rng.urange(1, 30) + rng.urange(1, 3)), // word count = 1,2,3 mod 4
                6 | 7 => rng.urange(1, 3000),
                8 => (1 << 16) + rng.urange(0, 2000),
                9 => rng.urange(3000, 70_000),
                _ => rng.urange(1, 600),
            }
        };
        let shape = if len >= (1 << 17) {
            *rng.pick(&["uniform", "dense_sparse", "sparse_dense", "gap16", "blocks", "few", "quantum", "ones", "zeros", "words"])
        } else {
            *rng.pick(&["uniform", "uniform", "dense_sparse", "sparse_dense", "blocks", "words", "few", "quantum", "ones", "zeros"])
        };
        // the adaptive selectors get a share of vectors whose gaps sit exactly on the span thresholds
        let adaptive = structure.starts_with("sa") || structure.starts_with("sz") || structure.contains("(sa") || structure.contains("(sz");
        let (len, shape) = if adaptive && rng.chance(1, 8) {
            (rng.urange(140_000, 900_000), if structure.starts_with("sz") && rng.chance(2, 3) { "gapmix0" } else { "gapmix" })
        } else if adaptive && rng.chance(1, 10) {
            (rng.urange(1_000_000, 6_000_000), if structure.starts_with("sz") && rng.chance(2, 3) { "gappow0" } else { "gappow" })
        } else {
            (len, shape)
        };
        // a few vectors just beyond 2^32 bits for the structures with 64-bit upper counters
        let huge_ok = matches!(
            structure.as_str(),
            "ranksmall0" | "ranksmall1" | "ranksmall2" | "ranksmall3" | "ranksmall4" | "ss0" | "ss1" | "ss2" | "ss3" | "ss4" | "rank9" | "select9" | "sa" | "sac" | "szs0" | "szs1" | "szs2" | "szs3" | "szs4" | "sza" | "szac"
        );
        let zero_side = structure.starts_with("sz") || (structure.starts_with("ranksmall") && rng.chance(1, 3));
        let (len, shape) = if huge_ok && run % 3001 < list.len() as u64 * 2 && rng.chance(1, if tier == Tier::Thorough { 3 } else { 8 }) {
            // (a quarter of the mostly-zeros ones for the RankSmall family reach the third and fourth 2^32-bit upper block)
            if !zero_side && (structure.starts_with("ranksmall") || structure.starts_with("ss")) && rng.chance(1, 4) {
                ((1usize << 33) + (rng.urange(0, 1) << 32) + rng.urange(1, 200_000), "huge")
            } else {
                ((1usize << 32) + rng.urange(1, 200_000), if zero_side { "huge0" } else { "huge" })
            }
        } else {
            (len, shape)
        };
        // Select9's exact-position classes (spans of 128.. subinventory words per 512 ones) need sparse stretches of
        // a few hundred thousand bits
        let (len, shape, sparse_dens) = if structure.contains("select9") && rng.chance(1, 5) {
            (rng.urange(70_000, 700_000), *rng.pick(&["uniform", "dense_sparse", "sparse_dense", "few", "blocks"]), Some(*rng.pick(&[1u32, 2, 4, 10, 30])))
        } else {
            (len, shape, None)
        };
        let small_inv = shape.starts_with("gapmix") || shape.starts_with("gappow");
        RanksCase {
            len,
            shape: shape.into(),
            dens: sparse_dens.unwrap_or(*rng.pick(&[1u32, 2, 10, 100, 300, 500, 500, 700, 900, 990, 999])),
            seed: rng.next_u64(),
            tail: rng.pick(&["clean", "clean", "pop", "pop", "raw", "raw_extra"]).to_string(),
            structure,
            p1: if small_inv { rng.usize_below(4) * 17 + rng.usize_below(4) } else { rng.usize_below(1 << 16) },
            p2: rng.usize_below(1 << 16),
            p3: rng.usize_below(1 << 16),
        }
    }

    fn execute(prop: &str, c: &RanksCase) -> Outcome {
        let mut out = Outcome::default();
        out.nontrivial = c.len > 0;
        let huge = c.shape == "huge" || c.shape == "huge0";
        let (m, bv, fired) = if huge {
            let (listed, bv) = build_huge(c);
            // only the sparse side is materialised for huge vectors: rank, and select of the sparse side, are checked
            if c.shape == "huge0" {
                (Model { len: c.len, ones: Vec::new(), zeros: listed, have_ones: false, have_zeros: true }, bv, (c.tail != "clean") as u64)
            } else {
                (Model { len: c.len, ones: listed, zeros: Vec::new(), have_ones: true, have_zeros: false }, bv, (c.tail != "clean") as u64)
            }
        } else {
            let (bits, bv, fired) = build(c);
            (
                Model { len: bits.len(), ones: (0..bits.len()).filter(|&i| bits[i]).collect(), zeros: (0..bits.len()).filter(|&i| !bits[i]).collect(), have_ones: true, have_zeros: true },
                bv,
                fired,
            )
        };
        if huge {
            out.probe("huge_vectors_beyond_2^32_bits", 1);
        }
        match c.tail.as_str() {
            "pop" => out.fault_n("slack.tail.stale_after_pop", fired),
            "raw" => out.fault_n("slack.tail.garbage", fired),
            "raw_extra" => out.fault_n("slack.words", fired),
            _ => {}
        }
        run_structure(prop, c, bv, &m, &mut out);
        out.steps = out.checks;
        let dc = if m.len == 0 {
            "empty"
        } else {
            match 1000 * m.n_ones() / m.len {
                0 => "d~0",
                1..=99 => "sparse",
                100..=899 => "mid",
                900..=999 => "dense",
                _ => "d=1",
            }
        };
        let lc = match c.len {
            0 => "0",
            1..=511 => "<512",
            512..=65535 => "<2^16",
            65536..=1048575 => "<2^20",
            _ => "big",
        };
        out.bucket(format!("{}|{}|{}|{}|{}|len%512={}", c.structure, c.shape, tail_class(c), dc, lc, if c.len % 512 == 0 { "0" } else if c.len % 64 == 0 { "w" } else { "r" }));
        out
    }

    fn shrink(_prop: &str, c: &RanksCase) -> Vec<RanksCase> {
        let mut v = Vec::new();
        let mut push = |x: RanksCase| {
            if &x != c {
                v.push(x);
            }
        };
        for l in [0usize, 1, 64, c.len / 2, c.len.saturating_sub(64), c.len.saturating_sub(1)] {
            if l < c.len {
                let mut x = c.clone();
                x.len = l;
                push(x);
            }
        }
        if c.tail != "clean" {
            let mut x = c.clone();
            x.tail = "clean".into();
            push(x);
        }
        if c.tail == "raw_extra" {
            let mut x = c.clone();
            x.tail = "raw".into();
            push(x);
        }
        if c.shape != "uniform" {
            let mut x = c.clone();
            x.shape = "uniform".into();
            push(x);
        }
        if c.dens != 500 {
            let mut x = c.clone();
            x.dens = 500;
            push(x);
        }
        for (a, b, d) in [(0usize, c.p2, c.p3), (c.p1, 0, c.p3), (c.p1, c.p2, 0)] {
            if (a, b, d) != (c.p1, c.p2, c.p3) {
                let mut x = c.clone();
                x.p1 = a;
                x.p2 = b;
                x.p3 = d;
                push(x);
            }
        }
        v
    }
}
