//! `atomics` world (C13): concurrent writers to distinct elements of AtomicBitVec /
//! AtomicBitFieldVec / EliasFanoConcurrentBuilder, executed as shuttle threads. The
//! `sched_point` hooks before every atomic operation are the switch points, so shuttle
//! alone decides which thread performs the next atomic operation.

use crate::core::model::*;
use crate::core::rng::Rng;
use crate::core::world::*;
use crate::util::shuttle_run::{self, Sched};
use serde::{Deserialize, Serialize};
use std::sync::atomic::Ordering;
use std::sync::{Arc, Mutex};
use sux::bits::{AtomicBitFieldVec, AtomicBitVec, BitFieldVec, BitVec};
use sux::dict::elias_fano::{EliasFanoBuilder, EliasFanoConcurrentBuilder};
use sux::traits::bit_field_slice::*;
use sux::traits::indexed_dict::IndexedSeq;

#[derive(Clone, Debug, Serialize, Deserialize, PartialEq)]
pub struct AtomicsCase {
    /// "bfv" | "bv_set" | "bv_swap" | "ef"
    pub kind: String,
    /// word type for bfv: u8|u16|u32|u64|usize
    pub word: String,
    pub width: usize,
    pub len: usize,
    /// extra backend words beyond the needed ones (bfv, bv)
    pub extra_words: usize,
    /// seed of the garbage / initial contents
    pub init_seed: u64,
    /// "zero" | "ones" | "random": initial element values
    pub init_kind: String,
    /// per task: list of (index, value); bv_swap: value bit 0 = bit to store, bit 1 = `set` instead of `swap`;
    /// one index is shared by all tasks (swaps only), every other index belongs to one task
    pub tasks: Vec<Vec<(usize, u64)>>,
    /// ef: upper bound
    pub u: usize,
    /// ef: the sorted values (index = position)
    pub values: Vec<usize>,
    pub sched: Sched,
}

fn mask(bits: usize) -> u64 {
    if bits >= 64 {
        u64::MAX
    } else {
        (1u64 << bits) - 1
    }
}

fn garbage(seed: u64, i: u64) -> u64 {
    let mut x = seed ^ i.wrapping_mul(0x9E3779B97F4A7C15);
    crate::core::rng::splitmix64(&mut x)
}

fn init_value(case: &AtomicsCase, i: usize) -> u64 {
    match case.init_kind.as_str() {
        "zero" => 0,
        "ones" => mask(case.width),
        _ => garbage(case.init_seed ^ 0x55, i as u64) & mask(case.width),
    }
}

/// One observation made inside an execution.
#[derive(Clone, Debug, Default)]
struct Obs {
    violation: Option<Violation>,
    checks: u64,
}

macro_rules! bfv_scenario {
    ($fname:ident, $w:ty) => {
        fn $fname(case: &AtomicsCase, obs: &mut Obs) {
            let wbits = <$w>::BITS as usize;
            let width = case.width.min(wbits);
            let needed = (case.len * width).div_ceil(wbits).max(1);
            let nwords = needed + case.extra_words;
            // storage: garbage everywhere, then the initial values written through the model
            let mut model_bits: Vec<bool> = (0..nwords * wbits).map(|b| (garbage(case.init_seed, (b / 64) as u64) >> (b % 64)) & 1 != 0).collect();
            let put = |bits: &mut Vec<bool>, i: usize, v: u64| {
                for k in 0..width {
                    bits[i * width + k] = (v >> k) & 1 != 0;
                }
            };
            for i in 0..case.len {
                put(&mut model_bits, i, init_value(case, i));
            }
            let words: Vec<$w> = (0..nwords)
                .map(|wi| {
                    let mut x: $w = 0;
                    for k in 0..wbits {
                        if model_bits[wi * wbits + k] {
                            x |= (1 as $w) << k;
                        }
                    }
                    x
                })
                .collect();
            set_op("bfv:from_raw_parts+into_atomic");
            let v: BitFieldVec<$w, Vec<$w>> = unsafe { BitFieldVec::from_raw_parts(words, width, case.len) };
            let a: AtomicBitFieldVec<$w> = v.into();
            let a = Arc::new(a);
            let mut hs = Vec::new();
            set_op("bfv:set_atomic(concurrent)");
            for t in &case.tasks {
                let a2 = a.clone();
                let t = t.clone();
                let wd = width;
                hs.push(shuttle::thread::spawn(move || {
                    for (i, val) in t {
                        a2.set_atomic(i, (val & mask(wd)) as $w, Ordering::Relaxed);
                    }
                }));
            }
            for h in hs {
                h.join().unwrap();
            }
            for t in &case.tasks {
                for &(i, val) in t {
                    put(&mut model_bits, i, val & mask(width));
                }
            }
            // oracle 1: get_atomic of every element
            set_op("bfv:get_atomic(after join)");
            for i in 0..case.len {
                let mut want = 0u64;
                for k in 0..width {
                    if model_bits[i * width + k] {
                        want |= 1 << k;
                    }
                }
                let got = a.get_atomic(i, Ordering::Relaxed) as u64;
                obs.checks += 1;
                if got != want && obs.violation.is_none() {
                    let written = case.tasks.iter().flatten().any(|&(j, _)| j == i);
                    obs.violation = Some(Violation::new(
                        if written { "lost_update" } else { "neighbour_disturbed" },
                        format!("atomics:bfv:{}", if written { "written_element_wrong" } else { "other_element_changed" }),
                        format!("element {i} = {got} after join (width {width}, word {wbits} bits)"),
                        format!("{want}"),
                    ));
                }
            }
            // oracle 2: every storage bit (elements, slack bits, extra words) after conversion to the non-atomic form
            set_op("bfv:into_non_atomic");
            let a = Arc::try_unwrap(a).ok().expect("all writers joined");
            let back: BitFieldVec<$w, Vec<$w>> = a.into();
            let (raw, _, _) = back.into_raw_parts();
            for (wi, &x) in raw.iter().enumerate() {
                for k in 0..wbits {
                    let got = (x >> k) & 1 != 0;
                    obs.checks += 1;
                    if got != model_bits[wi * wbits + k] && obs.violation.is_none() {
                        let b = wi * wbits + k;
                        let inside = b < case.len * width;
                        obs.violation = Some(Violation::new(
                            if inside { "storage_bit_wrong" } else { "slack_modified" },
                            format!("atomics:bfv:{}", if inside { "storage_bit_wrong" } else { "slack_bit_modified" }),
                            format!("storage bit {b} (word {wi}, bit {k}) = {got}"),
                            format!("{}", model_bits[b]),
                        ));
                    }
                }
            }
        }
    };
}

bfv_scenario!(bfv_u8, u8);
bfv_scenario!(bfv_u16, u16);
bfv_scenario!(bfv_u32, u32);
bfv_scenario!(bfv_u64, u64);
bfv_scenario!(bfv_usize, usize);

fn bv_storage(case: &AtomicsCase) -> (Vec<usize>, Vec<bool>) {
    let needed = case.len.div_ceil(64).max(1);
    let nwords = needed + case.extra_words;
    let mut bits: Vec<bool> = (0..nwords * 64).map(|b| (garbage(case.init_seed, (b / 64) as u64) >> (b % 64)) & 1 != 0).collect();
    for i in 0..case.len {
        bits[i] = match case.init_kind.as_str() {
            "zero" => false,
            "ones" => true,
            _ => garbage(case.init_seed ^ 0x77, i as u64) & 1 != 0,
        };
    }
    let words = (0..nwords)
        .map(|wi| {
            let mut x = 0usize;
            for k in 0..64 {
                if bits[wi * 64 + k] {
                    x |= 1 << k;
                }
            }
            x
        })
        .collect();
    (words, bits)
}

fn bv_set(case: &AtomicsCase, obs: &mut Obs) {
    let (words, mut model) = bv_storage(case);
    set_op("bv:from_raw_parts+into_atomic");
    let v: BitVec<Vec<usize>> = unsafe { BitVec::from_raw_parts(words, case.len) };
    let a: AtomicBitVec = v.into();
    let a = Arc::new(a);
    set_op("bv:set(concurrent)");
    let mut hs = Vec::new();
    for t in &case.tasks {
        let a2 = a.clone();
        let t = t.clone();
        hs.push(shuttle::thread::spawn(move || {
            for (i, val) in t {
                a2.set(i, val & 1 != 0, Ordering::Relaxed);
            }
        }));
    }
    for h in hs {
        h.join().unwrap();
    }
    for t in &case.tasks {
        for &(i, val) in t {
            model[i] = val & 1 != 0;
        }
    }
    set_op("bv:get(after join)");
    for i in 0..case.len {
        let got = a.get(i, Ordering::Relaxed);
        obs.checks += 1;
        if got != model[i] && obs.violation.is_none() {
            let written = case.tasks.iter().flatten().any(|&(j, _)| j == i);
            obs.violation = Some(Violation::new(
                if written { "lost_update" } else { "neighbour_disturbed" },
                format!("atomics:bv:{}", if written { "written_bit_wrong" } else { "other_bit_changed" }),
                format!("bit {i} = {got} after join"),
                format!("{}", model[i]),
            ));
        }
    }
    set_op("bv:into_non_atomic");
    let a = Arc::try_unwrap(a).ok().expect("all writers joined");
    let back: BitVec<Vec<usize>> = a.into();
    let (raw, _) = back.into_raw_parts();
    for (wi, &x) in raw.iter().enumerate() {
        for k in 0..64 {
            let got = (x >> k) & 1 != 0;
            obs.checks += 1;
            if got != model[wi * 64 + k] && obs.violation.is_none() {
                let b = wi * 64 + k;
                obs.violation = Some(Violation::new(
                    if b < case.len { "storage_bit_wrong" } else { "slack_modified" },
                    format!("atomics:bv:{}", if b < case.len { "storage_bit_wrong" } else { "slack_bit_modified" }),
                    format!("storage bit {b} = {got}"),
                    format!("{}", model[b]),
                ));
            }
        }
    }
}

/// Is there an order of all calls on one bit, respecting each task's program order, in which
/// every swap returns the value the bit held (a plain `set` returns nothing) and the final value
/// matches? Bits are independent objects and linearizability is local, so every bit is checked
/// on its own history.
fn linearizable(init: bool, calls: &[Vec<(bool, Option<bool>)>], fin: bool) -> bool {
    fn rec(cur: bool, pos: &mut Vec<usize>, calls: &[Vec<(bool, Option<bool>)>], fin: bool) -> bool {
        if pos.iter().zip(calls).all(|(&p, c)| p == c.len()) {
            return cur == fin;
        }
        for t in 0..calls.len() {
            if pos[t] < calls[t].len() {
                let (val, ret) = calls[t][pos[t]];
                if ret.is_none() || ret == Some(cur) {
                    pos[t] += 1;
                    if rec(val, pos, calls, fin) {
                        pos[t] -= 1;
                        return true;
                    }
                    pos[t] -= 1;
                }
            }
        }
        false
    }
    rec(init, &mut vec![0; calls.len()], calls, fin)
}

/// `swap` on a bit shared by all tasks, mixed with `swap`/`set` on bits each owned by one task
/// (mostly in the same word). Operation encoding in the value: bit 0 = value to store, bit 1 =
/// use `set` instead of `swap`.
fn bv_swap(case: &AtomicsCase, obs: &mut Obs) {
    let (words, model) = bv_storage(case);
    let v: BitVec<Vec<usize>> = unsafe { BitVec::from_raw_parts(words, case.len) };
    let a: AtomicBitVec = v.into();
    let a = Arc::new(a);
    set_op("bv:swap(concurrent)");
    type Calls = Vec<(usize, bool, Option<bool>)>;
    let results: Arc<Mutex<Vec<Calls>>> = Arc::new(Mutex::new(vec![Vec::new(); case.tasks.len()]));
    let mut hs = Vec::new();
    for (ti, t) in case.tasks.iter().enumerate() {
        let a2 = a.clone();
        let t = t.clone();
        let r2 = results.clone();
        hs.push(shuttle::thread::spawn(move || {
            let mut mine = Vec::new();
            for (i, val) in t {
                let v = val & 1 != 0;
                if val & 2 != 0 {
                    a2.set(i, v, Ordering::Relaxed);
                    mine.push((i, v, None));
                } else {
                    let ret = a2.swap(i, v, Ordering::Relaxed);
                    mine.push((i, v, Some(ret)));
                }
            }
            r2.lock().unwrap()[ti] = mine;
        }));
    }
    for h in hs {
        h.join().unwrap();
    }
    let calls = results.lock().unwrap().clone();
    let mut touched: Vec<usize> = case.tasks.iter().flatten().map(|x| x.0).collect();
    touched.sort_unstable();
    touched.dedup();
    for &idx in &touched {
        let fin = a.get(idx, Ordering::Relaxed);
        let per_bit: Vec<Vec<(bool, Option<bool>)>> = calls.iter().map(|c| c.iter().filter(|x| x.0 == idx).map(|x| (x.1, x.2)).collect()).collect();
        let writers = per_bit.iter().filter(|c| !c.is_empty()).count();
        obs.checks += 1;
        if !linearizable(model[idx], &per_bit, fin) {
            obs.violation = Some(if writers > 1 {
                Violation::new(
                    "not_linearizable",
                    "atomics:bv:swap_not_linearizable",
                    format!("bit {idx}: initial {}, calls (value, returned) per task {per_bit:?}, final {fin}", model[idx]),
                    "return values and final bit producible by some sequential order of the calls",
                )
            } else {
                Violation::new(
                    "lost_update",
                    "atomics:bv:single_writer_bit_wrong",
                    format!("bit {idx} (one writer): initial {}, calls (value, returned) {per_bit:?}, final {fin}", model[idx]),
                    "each swap returns the previous value of the bit and the last stored value stays",
                )
            });
            return;
        }
    }
    // the other bits
    for i in 0..case.len {
        if touched.binary_search(&i).is_err() {
            obs.checks += 1;
            if a.get(i, Ordering::Relaxed) != model[i] && obs.violation.is_none() {
                obs.violation = Some(Violation::new("neighbour_disturbed", "atomics:bv:swap_other_bit_changed", format!("bit {i} changed"), "unchanged"));
            }
        }
    }
}

fn ef(case: &AtomicsCase, obs: &mut Obs) {
    let n = case.values.len();
    set_op("ef:sequential_build");
    let mut sb = EliasFanoBuilder::new(n, case.u);
    for &v in &case.values {
        sb.push(v);
    }
    let seq = sb.build();
    set_op("ef:concurrent_set");
    let cb = Arc::new(EliasFanoConcurrentBuilder::new(n, case.u));
    let mut hs = Vec::new();
    for t in &case.tasks {
        let c2 = cb.clone();
        let t = t.clone();
        hs.push(shuttle::thread::spawn(move || {
            for (i, val) in t {
                unsafe { c2.set(i, val as usize) };
            }
        }));
    }
    for h in hs {
        h.join().unwrap();
    }
    set_op("ef:concurrent_build");
    let cb = Arc::try_unwrap(cb).ok().expect("all writers joined");
    let conc = cb.build();
    obs.checks += 1;
    let (ds, dc) = (format!("{seq:?}"), format!("{conc:?}"));
    if ds != dc {
        obs.violation = Some(Violation::new(
            "ef_differs",
            "atomics:ef:concurrent_build_differs_from_sequential",
            dc,
            ds,
        ));
        return;
    }
    // and through the query interface
    set_op("ef:query");
    let cb2 = EliasFanoConcurrentBuilder::new(n, case.u);
    for t in &case.tasks {
        for &(i, val) in t {
            unsafe { cb2.set(i, val as usize) };
        }
    }
    let q = cb2.build_with_seq();
    for (i, &v) in case.values.iter().enumerate() {
        obs.checks += 1;
        if q.get(i) != v && obs.violation.is_none() {
            obs.violation = Some(Violation::new("ef_value", "atomics:ef:get", format!("get({i}) = {}", q.get(i)), format!("{v}")));
        }
    }
    let it: Vec<usize> = q.iter().collect();
    obs.checks += 1;
    if it != case.values && obs.violation.is_none() {
        obs.violation = Some(Violation::new("ef_iter", "atomics:ef:iter", format!("{it:?}"), format!("{:?}", case.values)));
    }
}

fn scenario(case: &AtomicsCase, obs: &mut Obs) {
    match case.kind.as_str() {
        "bfv" => match case.word.as_str() {
            "u8" => bfv_u8(case, obs),
            "u16" => bfv_u16(case, obs),
            "u32" => bfv_u32(case, obs),
            "u64" => bfv_u64(case, obs),
            _ => bfv_usize(case, obs),
        },
        "bv_set" => bv_set(case, obs),
        "bv_swap" => bv_swap(case, obs),
        "ef" => ef(case, obs),
        other => panic!("unknown kind {other}"),
    }
}

fn word_bits(w: &str) -> usize {
    match w {
        "u8" => 8,
        "u16" => 16,
        "u32" => 32,
        _ => 64,
    }
}

/// Distinct indices placed deliberately: same word, adjacent words, straddling fields with both
/// neighbours written by other tasks, first/last element.
fn place_indices(rng: &mut Rng, len: usize, width: usize, wbits: usize, want: usize) -> Vec<usize> {
    let mut idx: Vec<usize> = Vec::new();
    let mut add = |i: usize, idx: &mut Vec<usize>| {
        if i < len && !idx.contains(&i) {
            idx.push(i);
        }
    };
    // straddling elements and their neighbours
    let straddlers: Vec<usize> = (0..len).filter(|&i| width > 0 && (i * width) / wbits != ((i + 1) * width - 1) / wbits).collect();
    let mut guard = 0;
    while idx.len() < want && guard < 200 {
        guard += 1;
        match rng.below(8) {
            0 => add(0, &mut idx),
            1 => add(len.saturating_sub(1), &mut idx),
            2..=4 if !straddlers.is_empty() => {
                let s = *rng.pick(&straddlers);
                add(s, &mut idx);
                if s > 0 {
                    add(s - 1, &mut idx);
                }
                add(s + 1, &mut idx);
            }
            5 => {
                // a run of neighbours (same word)
                let s = rng.usize_below(len.max(1));
                for k in 0..3 {
                    add(s + k, &mut idx);
                }
            }
            _ => add(rng.usize_below(len.max(1)), &mut idx),
        }
    }
    idx.truncate(want);
    idx
}

fn draw_sched(rng: &mut Rng, iters: usize) -> Sched {
    if rng.chance(1, 2) {
        Sched { kind: "random".into(), depth: 0, seed: rng.next_u64(), iters }
    } else {
        Sched { kind: "pct".into(), depth: rng.urange(1, 4), seed: rng.next_u64(), iters }
    }
}

pub struct AtomicsWorld;

impl World for AtomicsWorld {
    type Case = AtomicsCase;
    const NAME: &'static str = "atomics";

    fn generate(_prop: &str, tier: Tier, _run: u64, rng: &mut Rng) -> AtomicsCase {
        let iters = if tier == Tier::Quick { 50 } else { 400 };
        let ntasks = rng.urange(2, 3);
        let kind = *rng.pick(&["bfv", "bfv", "bfv", "bfv", "bv_set", "bv_swap", "ef", "ef"]);
        let mut c = AtomicsCase {
            kind: kind.into(),
            word: "usize".into(),
            width: 1,
            len: 0,
            extra_words: rng.urange(0, 2),
            init_seed: rng.next_u64(),
            init_kind: rng.pick(&["zero", "ones", "random", "random"]).to_string(),
            tasks: vec![],
            u: 0,
            values: vec![],
            sched: draw_sched(rng, iters),
        };
        let c0 = c.sched.clone();
        let _ = c0;
        match kind {
            "bfv" => {
                c.word = rng.pick(&["u8", "u16", "u32", "u64", "usize"]).to_string();
                let wb = word_bits(&c.word);
                // widths 1..W::BITS-1 with several writers; 0 and W::BITS single-writer
                c.width = match rng.below(12) {
                    0 => 0,
                    1 => wb,
                    2 => wb - 1,
                    3 => 1,
                    _ => rng.urange(1, wb - 1),
                };
                c.len = rng.urange(1, 64);
                let single = c.width == 0 || c.width == wb;
                let nt = if single { 1 } else { ntasks };
                let per = rng.urange(1, 6);
                let idx = place_indices(rng, c.len, c.width.max(1), wb, nt * per);
                c.tasks = vec![Vec::new(); nt];
                for (k, i) in idx.into_iter().enumerate() {
                    let val = match rng.below(4) {
                        0 => mask(c.width),
                        1 => 0,
                        _ => rng.next_u64() & mask(c.width),
                    };
                    c.tasks[k % nt].push((i, val));
                }
            }
            "bv_set" => {
                c.len = rng.urange(1, 200);
                let per = rng.urange(1, 6);
                let idx = place_indices(rng, c.len, 1, 64, ntasks * per);
                c.tasks = vec![Vec::new(); ntasks];
                for (k, i) in idx.into_iter().enumerate() {
                    c.tasks[k % ntasks].push((i, rng.below(2)));
                }
            }
            "bv_swap" => {
                c.len = rng.urange(1, 130);
                let i = rng.usize_below(c.len);
                let nt = rng.urange(2, 4);
                c.tasks = (0..nt).map(|_| (0..rng.urange(1, 2)).map(|_| (i, rng.below(2))).collect()).collect();
                if rng.chance(3, 4) {
                    // bits owned by one task each, preferably in the word of the shared bit
                    let lo = i / 64 * 64;
                    let hi = (lo + 64).min(c.len);
                    let mut pool: Vec<usize> = (lo..hi).filter(|&j| j != i).collect();
                    if pool.is_empty() || rng.chance(1, 4) {
                        pool = (0..c.len).filter(|&j| j != i).collect();
                    }
                    for k in (1..pool.len()).rev() {
                        let j = rng.usize_below(k + 1);
                        pool.swap(k, j);
                    }
                    for t in 0..nt {
                        for _ in 0..rng.urange(0, 3) {
                            if let Some(j) = pool.pop() {
                                for _ in 0..rng.urange(1, 2) {
                                    let op = (j, rng.below(2) | (rng.below(2) << 1));
                                    let at = rng.usize_below(c.tasks[t].len() + 1);
                                    c.tasks[t].insert(at, op);
                                }
                            }
                        }
                    }
                }
            }
            _ => {
                let n = rng.urange(1, 64);
                let u = match rng.below(4) {
                    0 => n.saturating_sub(1).max(1), // l = 0
                    1 => n,
                    2 => rng.urange(n, 64 * n),
                    _ => rng.urange(n, 1 << 20),
                };
                let mut vals: Vec<usize> = (0..n)
                    .map(|_| match rng.below(6) {
                        0 => 0,
                        1 => u,
                        _ => rng.urange(0, u),
                    })
                    .collect();
                if rng.chance(1, 3) {
                    // duplicates
                    let d = vals[0];
                    for v in vals.iter_mut().take(n / 2) {
                        *v = d;
                    }
                }
                vals.sort_unstable();
                c.u = u;
                c.values = vals.clone();
                c.len = n;
                c.tasks = vec![Vec::new(); ntasks];
                // random partition; within a task, random order
                let mut order: Vec<usize> = (0..n).collect();
                for i in (1..n).rev() {
                    let j = rng.usize_below(i + 1);
                    order.swap(i, j);
                }
                for i in order {
                    let t = rng.usize_below(ntasks);
                    c.tasks[t].push((i, vals[i] as u64));
                }
            }
        }
        if c.tasks.len() < 2 && c.sched.kind == "pct" {
            // shuttle's PCT scheduler asserts that the closure exercises some concurrency
            c.sched.kind = "random".into();
        }
        c
    }

    fn execute(_prop: &str, case: &AtomicsCase) -> Outcome {
        let mut out = Outcome::default();
        let writes: usize = case.tasks.iter().map(|t| t.len()).sum();
        out.nontrivial = writes > 0;
        let shared: Arc<Mutex<Obs>> = Arc::new(Mutex::new(Obs::default()));
        let sh = shared.clone();
        let c = case.clone();
        let rep = shuttle_run::run(&case.sched, 1, move || {
            let mut o = Obs::default();
            scenario(&c, &mut o);
            let mut g = sh.lock().unwrap();
            g.checks += o.checks;
            if g.violation.is_none() {
                g.violation = o.violation;
            }
        });
        let o = shared.lock().unwrap().clone();
        out.checks = o.checks;
        out.steps = rep.sched_points;
        out.trace = Some(rep.trace_hash);
        out.probe("shuttle.executions", rep.executions as u64);
        out.fault_n(&format!("sched.{}", case.sched.kind), rep.executions.max(1) as u64);
        if let Some(v) = o.violation {
            out.fail(v);
        }
        if let Some(msg) = rep.failure {
            if out.violation.is_none() {
                let class = if msg.to_lowercase().contains("deadlock") { "deadlock" } else { "panic" };
                out.fail(Violation::new(
                    class,
                    format!("atomics:{}:{}:{}", case.kind, class, normalise_msg(&msg)),
                    format!("{msg} [{}]", last_panic()),
                    "writers to distinct elements complete without panicking",
                ));
            }
        }
        let wb = word_bits(&case.word);
        let placement = {
            let idx: Vec<usize> = case.tasks.iter().flatten().map(|x| x.0).collect();
            let w = case.width.max(1);
            let strad = case.kind == "bfv" && idx.iter().any(|&i| (i * w) / wb != ((i + 1) * w - 1) / wb);
            let same_word = idx.iter().any(|&i| idx.iter().any(|&j| i != j && (i * w) / wb == (j * w) / wb));
            match (strad, same_word) {
                (true, _) => "straddle",
                (false, true) => "same_word",
                _ => "apart",
            }
        };
        out.bucket(format!(
            "{}|{}|w={}|{}|tasks={}|{}|extra={}",
            case.kind,
            if case.kind == "bfv" { case.word.as_str() } else { "-" },
            if case.kind == "bfv" {
                match case.width {
                    0 => "0".to_string(),
                    x if x == wb => "full".to_string(),
                    x if x == wb - 1 => "full-1".to_string(),
                    x if x <= 8 => format!("{x}"),
                    x => format!("{}x", x / 8 * 8),
                }
            } else {
                "-".into()
            },
            placement,
            case.tasks.len(),
            case.sched.kind,
            case.extra_words
        ));
        out
    }

    fn shrink(_prop: &str, case: &AtomicsCase) -> Vec<AtomicsCase> {
        let mut v = Vec::new();
        let mut push = |c: AtomicsCase| {
            if &c != case {
                v.push(c);
            }
        };
        if case.kind != "ef" {
            // drop a task / a write
            if case.tasks.len() > 1 {
                for t in 0..case.tasks.len() {
                    let mut c = case.clone();
                    c.tasks.remove(t);
                    push(c);
                }
            }
            for t in 0..case.tasks.len() {
                for k in 0..case.tasks[t].len() {
                    let mut c = case.clone();
                    c.tasks[t].remove(k);
                    if c.tasks[t].is_empty() && c.tasks.len() > 1 {
                        c.tasks.remove(t);
                    }
                    push(c);
                }
            }
            let maxi = case.tasks.iter().flatten().map(|x| x.0).max().unwrap_or(0);
            if case.len > maxi + 1 {
                let mut c = case.clone();
                c.len = maxi + 1;
                push(c);
            }
            if case.extra_words > 0 {
                let mut c = case.clone();
                c.extra_words = 0;
                push(c);
            }
            if case.init_kind != "zero" {
                let mut c = case.clone();
                c.init_kind = "zero".into();
                push(c);
            }
        } else if case.values.len() > 1 {
            // drop the last value
            let mut c = case.clone();
            let n = c.values.len() - 1;
            c.values.truncate(n);
            for t in c.tasks.iter_mut() {
                t.retain(|x| x.0 < n);
            }
            c.len = n;
            push(c);
        }
        if case.sched.iters > 1 {
            for it in [1usize, case.sched.iters / 2] {
                let mut c = case.clone();
                c.sched.iters = it.max(1);
                push(c);
            }
        }
        v
    }
}
