//! `builder` world: the whole VBuilder pipeline (lenders -> signature store ->
//! shard set-up -> par_solve -> VFunc / VFilter) executed as shuttle runs.
//! Serves C07 (correct function in any configuration and schedule), C08 (filters)
//! and C17 (failed builds report an error; fault enumeration).

use crate::core::model::*;
use crate::core::rng::Rng;
use crate::core::world::*;
use crate::util::faulty_lender::*;
use crate::util::shuttle_run::{self, Sched};
use dsi_progress_logger::no_logging;
use serde::{Deserialize, Serialize};
use std::sync::{Arc, Mutex};
use sux::bits::BitFieldVec;
use sux::func::shard_edge::*;
use sux::func::{BuildError, VBuilder};
use sux::traits::bit_field_slice::BitFieldSliceCore;

#[derive(Clone, Debug, Serialize, Deserialize, PartialEq)]
pub struct DiskCfg {
    pub passthrough: bool,
    pub short_write_max: Option<usize>,
    pub short_read_max: Option<usize>,
    pub eintr_every: Option<u64>,
    pub write_budget: Option<u64>,
    pub read_budget: Option<u64>,
    pub open_fail_at: Option<u64>,
    pub seek_fail_at: Option<u64>,
}

impl DiskCfg {
    pub fn to_plan(&self) -> verif_rt::simfs::DiskPlan {
        verif_rt::simfs::DiskPlan {
            passthrough: self.passthrough,
            short_write_max: self.short_write_max,
            short_read_max: self.short_read_max,
            eintr_every: self.eintr_every,
            write_budget: self.write_budget,
            read_budget: self.read_budget,
            open_fail_at: self.open_fail_at,
            seek_fail_at: self.seek_fail_at,
        }
    }
    pub fn has_hard(&self) -> bool {
        self.write_budget.is_some() || self.read_budget.is_some() || self.open_fail_at.is_some() || self.seek_fail_at.is_some()
    }
}

#[derive(Clone, Debug, Serialize, Deserialize, PartialEq)]
pub struct BuilderCase {
    /// "func" | "filter"
    pub mode: String,
    pub combo: String,
    /// "range" | "scatter" | (strings) "plain" | "prefix"
    pub key_kind: String,
    pub key_seed: u64,
    pub n: usize,
    /// "identity" | "random" | "zero" | "allones"
    pub val_kind: String,
    pub val_width: u32,
    pub hint: Option<usize>,
    pub hint_kind: String,
    pub offline: bool,
    pub low_mem: Option<bool>,
    pub threads: usize,
    pub eps: Option<f64>,
    pub log2_buckets: Option<u32>,
    pub bseed: u64,
    pub check_dups: bool,
    pub filter_bits: usize,
    /// duplicates: (index of the original key, position at which the copy is inserted in the final list)
    pub dups: Vec<(usize, usize)>,
    /// C17 template only: enumerate "key i delivered twice" for every i (duplicate detection must not depend on where
    /// the pair lands in the sorted shard)
    #[serde(default)]
    pub dup_sweep: bool,
    /// a single placement of such a sweep (executed once, not treated as a template)
    #[serde(default)]
    pub single: bool,
    pub faults: Vec<LFault>,
    pub disk: Option<DiskCfg>,
    pub sched: Sched,
    /// number of non-member probes (filters)
    pub probes: usize,
    /// string-key combinations only: deliver the keys through a real line lender of the crate over a
    /// simulated byte source instead of the FaultyLender
    #[serde(default)]
    pub key_source: Option<KeySrc>,
}

#[derive(Clone, Debug, Serialize, Deserialize, PartialEq)]
pub struct KeySrc {
    /// "line" | "gzip" | "zstd"
    pub kind: String,
    pub bufcap: usize,
    pub plan: crate::worlds::lenders::IoPlan,
}

pub const FUNC_COMBOS: &[&str] = &[
    "f/usize/bfv-usize/s2/shards",
    "f/usize/box-usize/s2/shards",
    "f/u64/bfv-u64/s1/noshards",
    "f/str/bfv-usize/s2/noshards",
    "f/usize/box-u8/s1/noshards",
    "f/str/box-u16/s2/shards",
    "f/u64/bfv-u32/s2/fullsigs",
    "f/usize/box-u32/s2/fullsigs",
    "f/usize/bfv-usize/s2/mwhc-shards",
    "f/u64/box-u64/s2/mwhc-noshards",
    "f/usize/bfv-u8/s2/shards",
    "f/usize/bfv-u16/s1/noshards",
    // the other key types with a ToSig implementation (both signature widths)
    "f/u8/bfv-usize/s1/noshards",
    "f/u16/box-u16/s2/shards",
    "f/u32/bfv-u32/s1/noshards",
    "f/u128/box-u64/s2/fullsigs",
    "f/i8/bfv-u8/s2/noshards",
    "f/i16/box-usize/s1/noshards",
    "f/i32/bfv-u16/s2/shards",
    "f/i64/box-u32/s1/noshards",
    "f/i128/bfv-usize/s1/noshards",
    "f/isize/bfv-u64/s2/shards",
    "f/string/box-usize/s1/noshards",
    "f/bytes/bfv-u32/s2/noshards",
    "f/words/bfv-usize/s1/noshards",
    "f/bytes/box-u16/s1/noshards",
];
pub const FILTER_COMBOS: &[&str] = &[
    "F/usize/box-u8/s2/shards",
    "F/usize/box-u16/s1/noshards",
    "F/str/box-u32/s2/noshards",
    "F/u64/box-u64/s2/fullsigs",
    "F/usize/bfv-usize/s2/shards",
    "F/u64/bfv-u8/s1/noshards",
    "F/str/bfv-u32/s2/shards",
    "F/usize/bfv-u16/s2/mwhc-shards",
    "F/usize/bfv-u64/s2/fullsigs",
    "F/u32/box-u8/s1/noshards",
    "F/string/bfv-u16/s2/shards",
    "F/i64/bfv-u32/s1/noshards",
    "F/u128/box-u16/s2/noshards",
    "F/u128/bfv-u8/s1/noshards",
];

pub fn combo_word_bits(combo: &str) -> u32 {
    let back = combo.split('/').nth(2).unwrap_or("");
    let w = back.split('-').nth(1).unwrap_or("usize");
    match w {
        "u8" => 8,
        "u16" => 16,
        "u32" => 32,
        _ => 64,
    }
}
pub fn combo_is_bfv(combo: &str) -> bool {
    combo.split('/').nth(2).map(|b| b.starts_with("bfv")).unwrap_or(false)
}
pub fn combo_key(combo: &str) -> &str {
    combo.split('/').nth(1).unwrap_or("usize")
}
pub fn combo_sharded(combo: &str) -> bool {
    let e = combo.split('/').nth(4).unwrap_or("");
    e == "shards" || e == "fullsigs" || e == "mwhc-shards"
}

// ---------------------------------------------------------------------------------------------
// key and value generation (pure functions of the case)

/// Largest number of distinct keys a key type can provide.
pub fn combo_max_n(combo: &str) -> usize {
    match combo_key(combo) {
        "u8" | "i8" => 256,
        "u16" | "i16" => 65_536,
        "bytes" | "words" => POOL_KEYS,
        _ => usize::MAX,
    }
}

/// i -> a key of `bits` bits: an affine bijection of Z/2^bits, so distinct i < 2^bits give distinct keys.
pub fn narrow_key(case: &BuilderCase, i: u64, bits: u32) -> u128 {
    let m = odd_mult(case.key_seed) as u128 | ((odd_mult(case.key_seed ^ 0x77) as u128) << 64) | 1;
    let c = (case.key_seed.rotate_left(29) as u128) | ((case.key_seed.rotate_left(3) as u128) << 64);
    let x = match case.key_kind.as_str() {
        "scatter" => (i as u128).wrapping_mul(m).wrapping_add(c),
        // keys that differ only in their upper half (2^(bits/2) of them)
        "high" if bits >= 64 => ((i as u128) << (bits / 2)) | (c & ((1u128 << (bits / 2)) - 1)),
        _ => i as u128,
    };
    if bits >= 128 {
        x
    } else {
        x & ((1u128 << bits) - 1)
    }
}

/// Slice keys (`&'static [u8]`, `&'static [u64]`) come from two immutable pools: pair j of keys shares a
/// chunk that starts with j, key 2j being a strict prefix of key 2j+1 (so lengths, not only contents, matter).
pub const POOL_KEYS: usize = 8192;
fn pool_bytes() -> &'static [u8] {
    static P: std::sync::OnceLock<Vec<u8>> = std::sync::OnceLock::new();
    P.get_or_init(|| {
        let mut v = Vec::with_capacity(POOL_KEYS / 2 * 16);
        for j in 0..(POOL_KEYS / 2) as u64 {
            v.extend_from_slice(&(j as u32).to_le_bytes());
            let mut x = j ^ 0xB17E5;
            for _ in 0..12 {
                v.push(crate::core::rng::splitmix64(&mut x) as u8);
            }
        }
        v
    })
}
fn pool_words() -> &'static [u64] {
    static P: std::sync::OnceLock<Vec<u64>> = std::sync::OnceLock::new();
    P.get_or_init(|| {
        let mut v = Vec::with_capacity(POOL_KEYS / 2 * 4);
        for j in 0..(POOL_KEYS / 2) as u64 {
            v.push(j);
            let mut x = j ^ 0x30AD5;
            for _ in 0..3 {
                v.push(crate::core::rng::splitmix64(&mut x));
            }
        }
        v
    })
}
pub fn bytes_key(i: u64) -> &'static [u8] {
    let j = (i / 2) as usize % (POOL_KEYS / 2);
    let base = 4 + j % 8;
    let len = if i % 2 == 0 { base } else { base + 1 + j % 3 };
    &pool_bytes()[j * 16..j * 16 + len]
}
pub fn words_key(i: u64) -> &'static [u64] {
    let j = (i / 2) as usize % (POOL_KEYS / 2);
    let base = 1 + j % 2;
    let len = if i % 2 == 0 { base } else { base + 1 };
    &pool_words()[j * 4..j * 4 + len]
}

fn odd_mult(seed: u64) -> u64 {
    let mut x = seed;
    crate::core::rng::splitmix64(&mut x) | 1
}

pub fn int_key(case: &BuilderCase, i: u64) -> u64 {
    match case.key_kind.as_str() {
        "scatter" => i.wrapping_mul(odd_mult(case.key_seed)).wrapping_add(case.key_seed.rotate_left(17)),
        // keys that differ only in their upper 32 bits
        "high" => (i << 32) | (case.key_seed & 0xffff_ffff),
        _ => i,
    }
}
pub fn str_key(case: &BuilderCase, i: u64) -> String {
    match case.key_kind.as_str() {
        "prefix" => format!("http://example.org/a/very/long/shared/prefix/{:x}/item-{}", case.key_seed & 0xff, i),
        _ => format!("{}-{:x}", i, case.key_seed & 0xffff),
    }
}

fn mask(bits: u32) -> u64 {
    if bits >= 64 {
        u64::MAX
    } else {
        (1u64 << bits) - 1
    }
}

/// value of the i-th distinct key, as u64 (already within the word and the declared width)
pub fn value_of(case: &BuilderCase, i: u64) -> u64 {
    let wb = combo_word_bits(&case.combo);
    let width = case.val_width.min(wb);
    match case.val_kind.as_str() {
        "zero" => 0,
        "allones" => mask(width),
        "random" => {
            let mut x = case.key_seed ^ i.wrapping_mul(0x9E3779B97F4A7C15) ^ 0xA5A5;
            crate::core::rng::splitmix64(&mut x) & mask(width)
        }
        _ => i & mask(wb),
    }
}

/// The list of (distinct-key index) in delivery order, duplicates inserted.
pub fn delivery_order(case: &BuilderCase) -> Vec<u64> {
    let mut v: Vec<u64> = (0..case.n as u64).collect();
    for &(src, pos) in &case.dups {
        if case.n == 0 {
            break;
        }
        let src = (src % case.n) as u64;
        let pos = pos.min(v.len());
        v.insert(pos, src);
    }
    v
}

// ---------------------------------------------------------------------------------------------

#[derive(Clone, Debug, Default)]
pub struct BuildObs {
    pub violation: Option<Violation>,
    pub outcome: String,
    pub key_passes: u64,
    pub items: u64,
    pub item_faults: u64,
    pub rewind_faults: u64,
    pub rewinds: u64,
    pub checks: u64,
    pub fpr_probes: u64,
    pub fpr_pos: u64,
    pub hash_bits: u32,
    pub disk: Option<verif_rt::simfs::DiskStats>,
}

fn err_chain_has_tag(e: &anyhow::Error, tags: &[String]) -> bool {
    e.chain().any(|c| c.downcast_ref::<SimIoError>().map(|s| tags.contains(&s.tag)).unwrap_or(false))
}
fn err_is_dup(e: &anyhow::Error) -> bool {
    e.chain().any(|c| matches!(c.downcast_ref::<BuildError>(), Some(BuildError::DuplicateKey)))
}
fn err_is_simfs(e: &anyhow::Error) -> bool {
    e.chain().any(|c| c.downcast_ref::<std::io::Error>().map(|io| io.to_string().contains("simfs")).unwrap_or(false))
        || format!("{e:#}").contains("simfs")
}

/// Classify the result of a build against the C07/C08/C17 oracle. `verify` is called on Ok and
/// returns the first wrong key, if any.
fn judge<F>(
    case: &BuilderCase,
    res: Result<F, anyhow::Error>,
    kstats: &LenderStats,
    vstats: Option<&LenderStats>,
    obs: &mut BuildObs,
    verify: impl FnOnce(&F, &mut BuildObs) -> Option<Violation>,
) {
    let g = LenderStats::get;
    obs.key_passes = g(&kstats.passes);
    obs.items = g(&kstats.items) + vstats.map(|v| g(&v.items)).unwrap_or(0);
    obs.item_faults = g(&kstats.item_faults) + vstats.map(|v| g(&v.item_faults)).unwrap_or(0);
    obs.rewind_faults = g(&kstats.rewind_faults) + vstats.map(|v| g(&v.rewind_faults)).unwrap_or(0);
    obs.rewinds = g(&kstats.rewinds) + vstats.map(|v| g(&v.rewinds)).unwrap_or(0);
    let fired = obs.item_faults + obs.rewind_faults > 0;
    let tags: Vec<String> = case.faults.iter().map(|f| f.tag()).collect();
    let has_dups = !case.dups.is_empty() && case.n > 0;
    let disk = verif_rt::simfs::stats();
    let disk_hard = disk.enospc + disk.eio + disk.open_failed + disk.seek_failed > 0;
    obs.disk = Some(disk);
    let mode = &case.mode;
    let ctx = format!("{}:{}", W_NAME, if mode == "func" { "try_build_func" } else { "try_build_filter" });
    match res {
        Ok(f) => {
            if fired {
                obs.outcome = "ok_after_fault".into();
                obs.violation = Some(Violation::new(
                    "ok_after_fault",
                    format!("{ctx}:Ok:lender_fault_fired"),
                    format!("build returned Ok although the lender reported an error ({} item faults, {} rewind faults; planned {:?})", obs.item_faults, obs.rewind_faults, tags),
                    "Err carrying the injected error",
                ));
                return;
            }
            if has_dups && case.check_dups {
                obs.outcome = "ok_with_dups".into();
                obs.violation = Some(Violation::new(
                    "ok_with_dups",
                    format!("{ctx}:Ok:duplicate_keys_check_on"),
                    format!("build returned Ok with {} duplicate keys and check_dups(true)", case.dups.len()),
                    "Err(DuplicateKey) within a bounded number of attempts",
                ));
                return;
            }
            obs.outcome = if disk_hard { "ok_despite_disk_fault".into() } else { "ok".into() };
            if let Some(v) = verify(&f, obs) {
                obs.outcome = "wrong".into();
                obs.violation = Some(v);
            }
        }
        Err(e) => {
            let es = format!("{e:#}");
            if fired {
                if err_chain_has_tag(&e, &tags) {
                    obs.outcome = "err_injected".into();
                } else if has_dups && case.check_dups && err_is_dup(&e) {
                    obs.outcome = "err_dup".into();
                } else if disk_hard && err_is_simfs(&e) {
                    obs.outcome = "err_disk".into();
                } else {
                    obs.outcome = "err_other".into();
                    obs.violation = Some(Violation::new(
                        "wrong_error",
                        format!("{ctx}:Err:not_the_injected_error"),
                        format!("error returned: {es}"),
                        format!("an error whose chain contains the injected SimIoError (one of {tags:?})"),
                    ));
                }
            } else if disk_hard && err_is_simfs(&e) {
                obs.outcome = "err_disk".into();
            } else if has_dups && case.check_dups && err_is_dup(&e) {
                obs.outcome = "err_dup".into();
                // "bounded number of attempts" is enforced by the lender's pass budget: natural
                // UnsolvableShard retries may be interleaved with the four duplicate detections
            } else {
                obs.outcome = "err_unexpected".into();
                obs.violation = Some(Violation::new(
                    "unexpected_error",
                    format!("{ctx}:Err:no_fault_no_dups"),
                    format!("error returned: {es}"),
                    "Ok(function) — distinct keys, no fault fired",
                ));
            }
        }
    }
}

const W_NAME: &str = "builder";

/// 6-sigma two-sided test of the false-positive count.
fn fpr_violation(bits: u32, probes: u64, pos: u64, ctx: &str) -> Option<Violation> {
    if probes == 0 {
        return None;
    }
    let p = if bits >= 64 { 0.0 } else { 1.0 / (1u64 << bits) as f64 };
    let mean = probes as f64 * p;
    let sd = (probes as f64 * p * (1.0 - p)).sqrt();
    let hi = (mean + 6.0 * sd).ceil().max(5.0);
    let lo = (mean - 6.0 * sd).floor();
    if (pos as f64) > hi {
        return Some(Violation::new(
            "fpr_high",
            format!("{ctx}:false_positive_rate:too_high"),
            format!("{pos} positives among {probes} non-member probes with b={bits}"),
            format!("at most {hi} (N*2^-b = {mean:.2}, 6 sigma)"),
        ));
    }
    if lo > 0.0 && (pos as f64) < lo {
        return Some(Violation::new(
            "fpr_low",
            format!("{ctx}:false_positive_rate:too_low"),
            format!("{pos} positives among {probes} non-member probes with b={bits}"),
            format!("at least {lo} (N*2^-b = {mean:.2}, 6 sigma)"),
        ));
    }
    None
}

fn configure<W, D, S, E>(case: &BuilderCase) -> VBuilder<W, D, S, E>
where
    W: epserde::prelude::ZeroCopy + sux::traits::bit_field_slice::Word,
    D: sux::traits::bit_field_slice::BitFieldSlice<W> + Send + Sync,
    E: ShardEdge<S, 3>,
{
    let mut b = VBuilder::<W, D, S, E>::default()
        .offline(case.offline)
        .max_num_threads(case.threads.max(1))
        .seed(case.bseed)
        .check_dups(case.check_dups);
    if let Some(h) = case.hint {
        b = b.expected_num_keys(h);
    }
    if let Some(l) = case.low_mem {
        b = b.low_mem(l);
    }
    if let Some(e) = case.eps {
        b = b.eps(e);
    }
    if let Some(l) = case.log2_buckets {
        b = b.log2_buckets(l);
    }
    b
}

macro_rules! keys_of {
    ($k:tt, $case:expr, $order:expr) => {
        Arc::new($order.iter().map(|&i| key_at!($k, $case, i)).collect::<Vec<owned_ty!($k)>>())
    };
}
macro_rules! key_at {
    (usize, $case:expr, $i:expr) => {
        int_key($case, $i) as usize
    };
    (u64, $case:expr, $i:expr) => {
        int_key($case, $i)
    };
    (str, $case:expr, $i:expr) => {
        str_key($case, $i)
    };
    (string, $case:expr, $i:expr) => {
        str_key($case, $i)
    };
    (bytes, $case:expr, $i:expr) => {
        bytes_key($i)
    };
    (words, $case:expr, $i:expr) => {
        words_key($i)
    };
    (u8, $case:expr, $i:expr) => {
        narrow_key($case, $i, 8) as u8
    };
    (i8, $case:expr, $i:expr) => {
        narrow_key($case, $i, 8) as u8 as i8
    };
    (u16, $case:expr, $i:expr) => {
        narrow_key($case, $i, 16) as u16
    };
    (i16, $case:expr, $i:expr) => {
        narrow_key($case, $i, 16) as u16 as i16
    };
    (u32, $case:expr, $i:expr) => {
        narrow_key($case, $i, 32) as u32
    };
    (i32, $case:expr, $i:expr) => {
        narrow_key($case, $i, 32) as u32 as i32
    };
    (i64, $case:expr, $i:expr) => {
        narrow_key($case, $i, 64) as u64 as i64
    };
    (isize, $case:expr, $i:expr) => {
        narrow_key($case, $i, 64) as u64 as isize
    };
    (u128, $case:expr, $i:expr) => {
        narrow_key($case, $i, 128)
    };
    (i128, $case:expr, $i:expr) => {
        narrow_key($case, $i, 128) as i128
    };
}
/// the type of the items the key source lends
macro_rules! owned_ty {
    (str) => { String };
    (string) => { String };
    (bytes) => { &'static [u8] };
    (words) => { &'static [u64] };
    ($t:tt) => { $t };
}
/// the key type parameter T of VFunc / VFilter
macro_rules! key_ty {
    (str) => { str };
    (string) => { String };
    (bytes) => { &'static [u8] };
    (words) => { &'static [u64] };
    ($t:tt) => { $t };
}
macro_rules! back_ty {
    (bfv, $w:ty) => { BitFieldVec<$w> };
    (boxed, $w:ty) => { Box<[$w]> };
}
macro_rules! sig_ty {
    (s1) => { [u64; 1] };
    (s2) => { [u64; 2] };
}

/// unaligned reads are admissible for these widths (documentation of get_unaligned)
fn unaligned_ok(width: usize, wbits: usize) -> bool {
    width <= wbits - 8 + 2 || width == wbits - 8 + 4 || width == wbits
}

macro_rules! func_combo {
    ($fname:ident, $k:tt, $w:ty, $back:tt, $s:tt, $e:ty) => {
        fn $fname(case: &BuilderCase, obs: &mut BuildObs) {
            let order = delivery_order(case);
            let keys = keys_of!($k, case, order);
            let vals: Arc<Vec<$w>> = Arc::new(order.iter().map(|&i| value_of(case, i) as $w).collect());
            let kl = FaultyLender::<owned_ty!($k), key_ty!($k)>::new(keys.clone(), "keys", &case.faults);
            let vl = FaultyLender::<$w, $w>::new(vals.clone(), "values", &case.faults);
            let (ks, vs) = (kl.stats.clone(), vl.stats.clone());
            set_op("try_build_func");
            let b = configure::<$w, back_ty!($back, $w), sig_ty!($s), $e>(case);
            let res = b.try_build_func(kl, vl, no_logging![]);
            set_op("verify_func");
            judge(case, res, &ks, Some(&vs), obs, |f, obs| {
                let ctx = format!("builder:func:{}", case_sig_ctx(case));
                if f.len() != case.n {
                    return Some(Violation::new("wrong_len", format!("{ctx}:len"), format!("len() = {}", f.len()), format!("{}", case.n)));
                }
                let mut wrong = 0u64;
                let mut first: Option<(u64, u64, u64)> = None;
                for i in 0..case.n as u64 {
                    let k = key_at!($k, case, i);
                    let got = f.get(k.clone()) as u64;
                    let want = value_of(case, i);
                    obs.checks += 1;
                    if got != want {
                        wrong += 1;
                        if first.is_none() {
                            first = Some((i, got, want));
                        }
                    }
                }
                if let Some((i, got, want)) = first {
                    return Some(Violation::new(
                        "wrong_value",
                        format!("{ctx}:get"),
                        format!("{wrong} of {} keys wrong; first: key #{i} -> {got}", case.n),
                        format!("key #{i} -> {want}"),
                    ));
                }
                func_combo!(@unaligned $back, $k, $w, f, case, obs, ctx);
                None
            });
        }
    };
    (@unaligned boxed, $k:tt, $w:ty, $f:ident, $case:ident, $obs:ident, $ctx:ident) => {};
    (@unaligned bfv, $k:tt, $w:ty, $f:ident, $case:ident, $obs:ident, $ctx:ident) => {
        {
            // width of the stored values as the builder derives it
            let maxv = (0..$case.n as u64).map(|i| value_of($case, i)).max().unwrap_or(0);
            let width = (64 - maxv.leading_zeros()) as usize;
            let wbits = <$w>::BITS as usize;
            if $case.n > 0 && unaligned_ok(width, wbits) {
                for i in 0..$case.n as u64 {
                    let k = key_at!($k, $case, i);
                    let got = $f.get_unaligned(k.clone()) as u64;
                    let want = value_of($case, i);
                    $obs.checks += 1;
                    if got != want {
                        return Some(Violation::new(
                            "wrong_value_unaligned",
                            format!("{}:get_unaligned:w{}", $ctx, wbits),
                            format!("key #{i} -> {got} (width {width}, word {wbits} bits)"),
                            format!("key #{i} -> {want}"),
                        ));
                    }
                }
            }
        }
    };
}

macro_rules! filter_combo {
    ($fname:ident, $k:tt, $w:ty, $back:tt, $s:tt, $e:ty) => {
        fn $fname(case: &BuilderCase, obs: &mut BuildObs) {
            let order = delivery_order(case);
            let keys = keys_of!($k, case, order);
            let kl = FaultyLender::<owned_ty!($k), key_ty!($k)>::new(keys.clone(), "keys", &case.faults);
            let ks = kl.stats.clone();
            set_op("try_build_filter");
            let b = configure::<$w, back_ty!($back, $w), sig_ty!($s), $e>(case);
            let res = filter_combo!(@build $back, $w, b, kl, case);
            let want_bits: u32 = filter_combo!(@bits $back, $w, case);
            set_op("verify_filter");
            judge(case, res, &ks, None, obs, |f, obs| {
                let ctx = format!("builder:filter:{}", case_sig_ctx(case));
                if f.len() != case.n {
                    return Some(Violation::new("wrong_len", format!("{ctx}:len"), format!("len() = {}", f.len()), format!("{}", case.n)));
                }
                if f.hash_bits() != want_bits {
                    return Some(Violation::new("wrong_hash_bits", format!("{ctx}:hash_bits"), format!("{}", f.hash_bits()), format!("{want_bits}")));
                }
                obs.hash_bits = want_bits;
                for i in 0..case.n as u64 {
                    let k = key_at!($k, case, i);
                    obs.checks += 2;
                    if !f.contains(k.clone()) {
                        return Some(Violation::new("false_negative", format!("{ctx}:contains"), format!("contains(key #{i}) = false"), "true for every inserted key"));
                    }
                    if !f[k.clone()] {
                        return Some(Violation::new("false_negative", format!("{ctx}:index"), format!("filter[key #{i}] = false"), "true for every inserted key"));
                    }
                    filter_combo!(@unaligned $back, $w, f, k, i, want_bits, obs, ctx);
                }
                let mut pos = 0u64;
                let base = case.n as u64 + 1_000_003;
                for j in 0..case.probes as u64 {
                    let k = key_at!($k, case, base + j);
                    if f.contains(k) {
                        pos += 1;
                    }
                }
                obs.fpr_probes = case.probes as u64;
                obs.fpr_pos = pos;
                obs.checks += case.probes as u64;
                if case.n > 0 {
                    if let Some(v) = fpr_violation(want_bits, case.probes as u64, pos, &ctx) {
                        return Some(v);
                    }
                }
                None
            });
        }
    };
    (@unaligned boxed, $w:ty, $f:ident, $k:ident, $i:ident, $bits:ident, $obs:ident, $ctx:ident) => {};
    (@unaligned bfv, $w:ty, $f:ident, $k:ident, $i:ident, $bits:ident, $obs:ident, $ctx:ident) => {
        // the unaligned query path, whenever its documented preconditions hold (admissible width; the
        // builder allocates the padding word)
        if unaligned_ok($bits as usize, <$w>::BITS as usize) {
            $obs.checks += 1;
            if !$f.contains_unaligned($k.clone()) {
                return Some(Violation::new("false_negative", format!("{}:contains_unaligned", $ctx), format!("contains_unaligned(key #{}) = false (b = {})", $i, $bits), "true for every inserted key"));
            }
        }
    };
    (@build boxed, $w:ty, $b:ident, $kl:ident, $case:ident) => {
        $b.try_build_filter($kl, no_logging![])
    };
    (@build bfv, $w:ty, $b:ident, $kl:ident, $case:ident) => {
        $b.try_build_filter($kl, $case.filter_bits.clamp(1, <$w>::BITS as usize), no_logging![])
    };
    (@bits boxed, $w:ty, $case:ident) => {
        <$w>::BITS
    };
    (@bits bfv, $w:ty, $case:ident) => {
        $case.filter_bits.clamp(1, <$w>::BITS as usize) as u32
    };
}

/// Context used in signatures: the precondition class, never sizes or seeds.
fn case_sig_ctx(case: &BuilderCase) -> String {
    let hint = match case.hint_kind.as_str() {
        "other_regime" => "hint_other_regime",
        _ => "hint_any",
    };
    hint.to_string()
}

/// String keys delivered by LineLender / GzipLineLender / ZstdLineLender over a SimSource.
macro_rules! str_lender_combo {
    ($fname:ident, func, $w:ty, $back:tt, $s:tt, $e:ty) => {
        fn $fname(case: &BuilderCase, ks: &KeySrc, obs: &mut BuildObs) {
            use crate::worlds::lenders::{IoStats, SimSource};
            use std::io::Write;
            let text: String = (0..case.n as u64).map(|i| str_key(case, i) + "\n").collect();
            let vals: Arc<Vec<$w>> = Arc::new((0..case.n as u64).map(|i| value_of(case, i) as $w).collect());
            let stats = Arc::new(IoStats::default());
            let vl = FaultyLender::<$w, $w>::new(vals.clone(), "values", &case.faults);
            let vs = vl.stats.clone();
            let b = configure::<$w, back_ty!($back, $w), sig_ty!($s), $e>(case);
            set_op("try_build_func(line lender keys)");
            let res = match ks.kind.as_str() {
                "gzip" => {
                    let mut enc = flate2::write::GzEncoder::new(Vec::new(), flate2::Compression::fast());
                    enc.write_all(text.as_bytes()).unwrap();
                    let comp = enc.finish().unwrap();
                    let mut plan = ks.plan.clone();
                    plan.truncate_at = plan.truncate_at.map(|t| 1 + t % (comp.len() as u64 - 1).max(1));
                    plan.fail_at_byte = plan.fail_at_byte.map(|t| t % (comp.len() as u64).max(1));
                    match sux::utils::lenders::GzipLineLender::new(SimSource::new(Arc::new(comp), plan, stats.clone())) {
                        Ok(kl) => b.try_build_func(kl, vl, no_logging![]),
                        Err(e) => Err(e.into()),
                    }
                }
                "zstd" => {
                    let comp = zstd::encode_all(text.as_bytes(), 1).unwrap();
                    let mut plan = ks.plan.clone();
                    plan.truncate_at = plan.truncate_at.map(|t| 1 + t % (comp.len() as u64 - 1).max(1));
                    plan.fail_at_byte = plan.fail_at_byte.map(|t| t % (comp.len() as u64).max(1));
                    match sux::utils::lenders::ZstdLineLender::new(SimSource::new(Arc::new(comp), plan, stats.clone())) {
                        Ok(kl) => b.try_build_func(kl, vl, no_logging![]),
                        Err(e) => Err(e.into()),
                    }
                }
                _ => {
                    let mut plan = ks.plan.clone();
                    plan.truncate_at = None;
                    plan.fail_at_byte = plan.fail_at_byte.map(|t| t % (text.len() as u64).max(1));
                    let kl = sux::utils::lenders::LineLender::new(std::io::BufReader::with_capacity(ks.bufcap.max(1), SimSource::new(Arc::new(text.into_bytes()), plan, stats.clone())));
                    b.try_build_func(kl, vl, no_logging![])
                }
            };
            set_op("verify_func(line lender keys)");
            let g = |a: &std::sync::atomic::AtomicU64| a.load(std::sync::atomic::Ordering::Relaxed);
            let io_fired = g(&stats.hard) + g(&stats.seek_failed) > 0;
            obs.item_faults = g(&stats.hard) + LenderStats::get(&vs.item_faults);
            obs.rewind_faults = g(&stats.seek_failed) + LenderStats::get(&vs.rewind_faults);
            obs.rewinds = g(&stats.seeks);
            obs.key_passes = 1 + g(&stats.seeks);
            obs.items = LenderStats::get(&vs.items);
            let fired = io_fired || LenderStats::get(&vs.item_faults) + LenderStats::get(&vs.rewind_faults) > 0;
            let disk = verif_rt::simfs::stats();
            let disk_hard = disk.enospc + disk.eio + disk.open_failed + disk.seek_failed > 0;
            obs.disk = Some(disk);
            let ctx = "builder:try_build_func(line lender keys)";
            match res {
                Ok(f) => {
                    if fired {
                        obs.outcome = "ok_after_fault".into();
                        obs.violation = Some(Violation::new(
                            "ok_after_fault",
                            format!("{ctx}:{}:Ok:source_fault_fired", ks.kind),
                            format!("build returned Ok (len {}) although the {} key source failed ({} hard read errors/truncations, {} failed seeks; plan {:?})", f.len(), ks.kind, g(&stats.hard), g(&stats.seek_failed), ks.plan),
                            "Err carrying the I/O error",
                        ));
                        return;
                    }
                    obs.outcome = "ok".into();
                    if f.len() != case.n {
                        obs.violation = Some(Violation::new("wrong_len", format!("{ctx}:{}:len", ks.kind), format!("len() = {}", f.len()), format!("{}", case.n)));
                        return;
                    }
                    for i in 0..case.n as u64 {
                        let k = str_key(case, i);
                        obs.checks += 1;
                        if f.get(k.as_str()) as u64 != value_of(case, i) {
                            obs.outcome = "wrong".into();
                            obs.violation = Some(Violation::new("wrong_value", format!("{ctx}:{}:get", ks.kind), format!("key #{i} -> {}", f.get(k.as_str()) as u64), format!("{}", value_of(case, i))));
                            return;
                        }
                    }
                }
                Err(e) => {
                    if fired {
                        obs.outcome = "err_injected".into();
                    } else if disk_hard && err_is_simfs(&e) {
                        obs.outcome = "err_disk".into();
                    } else {
                        obs.outcome = "err_unexpected".into();
                        obs.violation = Some(Violation::new("unexpected_error", format!("{ctx}:{}:Err:no_fault", ks.kind), format!("{e:#}"), "Ok(function)"));
                    }
                }
            }
        }
    };
}
str_lender_combo!(f3_lender, func, usize, bfv, s2, FuseLge3NoShards);
str_lender_combo!(f5_lender, func, u16, boxed, s2, FuseLge3Shards);

func_combo!(f0, usize, usize, bfv, s2, FuseLge3Shards);
func_combo!(f1, usize, usize, boxed, s2, FuseLge3Shards);
func_combo!(f2, u64, u64, bfv, s1, FuseLge3NoShards);
func_combo!(f3, str, usize, bfv, s2, FuseLge3NoShards);
func_combo!(f4, usize, u8, boxed, s1, FuseLge3NoShards);
func_combo!(f5, str, u16, boxed, s2, FuseLge3Shards);
func_combo!(f6, u64, u32, bfv, s2, FuseLge3FullSigs);
func_combo!(f7, usize, u32, boxed, s2, FuseLge3FullSigs);
func_combo!(f8, usize, usize, bfv, s2, Mwhc3Shards);
func_combo!(f9, u64, u64, boxed, s2, Mwhc3NoShards);
func_combo!(f10, usize, u8, bfv, s2, FuseLge3Shards);
func_combo!(f11, usize, u16, bfv, s1, FuseLge3NoShards);
func_combo!(f12, u8, usize, bfv, s1, FuseLge3NoShards);
func_combo!(f13, u16, u16, boxed, s2, FuseLge3Shards);
func_combo!(f14, u32, u32, bfv, s1, FuseLge3NoShards);
func_combo!(f15, u128, u64, boxed, s2, FuseLge3FullSigs);
func_combo!(f16, i8, u8, bfv, s2, FuseLge3NoShards);
func_combo!(f17, i16, usize, boxed, s1, FuseLge3NoShards);
func_combo!(f18, i32, u16, bfv, s2, FuseLge3Shards);
func_combo!(f19, i64, u32, boxed, s1, FuseLge3NoShards);
func_combo!(f20, i128, usize, bfv, s1, FuseLge3NoShards);
func_combo!(f21, isize, u64, bfv, s2, FuseLge3Shards);
func_combo!(f22, string, usize, boxed, s1, FuseLge3NoShards);
func_combo!(f23, bytes, u32, bfv, s2, FuseLge3NoShards);
func_combo!(f24, words, usize, bfv, s1, FuseLge3NoShards);
func_combo!(f25, bytes, u16, boxed, s1, FuseLge3NoShards);

filter_combo!(g0, usize, u8, boxed, s2, FuseLge3Shards);
filter_combo!(g1, usize, u16, boxed, s1, FuseLge3NoShards);
filter_combo!(g2, str, u32, boxed, s2, FuseLge3NoShards);
filter_combo!(g3, u64, u64, boxed, s2, FuseLge3FullSigs);
filter_combo!(g4, usize, usize, bfv, s2, FuseLge3Shards);
filter_combo!(g5, u64, u8, bfv, s1, FuseLge3NoShards);
filter_combo!(g6, str, u32, bfv, s2, FuseLge3Shards);
filter_combo!(g7, usize, u16, bfv, s2, Mwhc3Shards);
filter_combo!(g8, usize, u64, bfv, s2, FuseLge3FullSigs);
filter_combo!(g9, u32, u8, boxed, s1, FuseLge3NoShards);
filter_combo!(g10, string, u16, bfv, s2, FuseLge3Shards);
filter_combo!(g11, i64, u32, bfv, s1, FuseLge3NoShards);
filter_combo!(g12, u128, u16, boxed, s2, FuseLge3NoShards);
filter_combo!(g13, u128, u8, bfv, s1, FuseLge3NoShards);

fn dispatch(case: &BuilderCase, obs: &mut BuildObs) {
    match case.combo.as_str() {
        "f/usize/bfv-usize/s2/shards" => f0(case, obs),
        "f/usize/box-usize/s2/shards" => f1(case, obs),
        "f/u64/bfv-u64/s1/noshards" => f2(case, obs),
        "f/str/bfv-usize/s2/noshards" => match &case.key_source {
            Some(ks) => f3_lender(case, ks, obs),
            None => f3(case, obs),
        },
        "f/usize/box-u8/s1/noshards" => f4(case, obs),
        "f/str/box-u16/s2/shards" => match &case.key_source {
            Some(ks) => f5_lender(case, ks, obs),
            None => f5(case, obs),
        },
        "f/u64/bfv-u32/s2/fullsigs" => f6(case, obs),
        "f/usize/box-u32/s2/fullsigs" => f7(case, obs),
        "f/usize/bfv-usize/s2/mwhc-shards" => f8(case, obs),
        "f/u64/box-u64/s2/mwhc-noshards" => f9(case, obs),
        "f/usize/bfv-u8/s2/shards" => f10(case, obs),
        "f/usize/bfv-u16/s1/noshards" => f11(case, obs),
        "f/u8/bfv-usize/s1/noshards" => f12(case, obs),
        "f/u16/box-u16/s2/shards" => f13(case, obs),
        "f/u32/bfv-u32/s1/noshards" => f14(case, obs),
        "f/u128/box-u64/s2/fullsigs" => f15(case, obs),
        "f/i8/bfv-u8/s2/noshards" => f16(case, obs),
        "f/i16/box-usize/s1/noshards" => f17(case, obs),
        "f/i32/bfv-u16/s2/shards" => f18(case, obs),
        "f/i64/box-u32/s1/noshards" => f19(case, obs),
        "f/i128/bfv-usize/s1/noshards" => f20(case, obs),
        "f/isize/bfv-u64/s2/shards" => f21(case, obs),
        "f/string/box-usize/s1/noshards" => f22(case, obs),
        "f/bytes/bfv-u32/s2/noshards" => f23(case, obs),
        "f/words/bfv-usize/s1/noshards" => f24(case, obs),
        "f/bytes/box-u16/s1/noshards" => f25(case, obs),
        "F/usize/box-u8/s2/shards" => g0(case, obs),
        "F/usize/box-u16/s1/noshards" => g1(case, obs),
        "F/str/box-u32/s2/noshards" => g2(case, obs),
        "F/u64/box-u64/s2/fullsigs" => g3(case, obs),
        "F/usize/bfv-usize/s2/shards" => g4(case, obs),
        "F/u64/bfv-u8/s1/noshards" => g5(case, obs),
        "F/str/bfv-u32/s2/shards" => g6(case, obs),
        "F/usize/bfv-u16/s2/mwhc-shards" => g7(case, obs),
        "F/usize/bfv-u64/s2/fullsigs" => g8(case, obs),
        "F/u32/box-u8/s1/noshards" => g9(case, obs),
        "F/string/bfv-u16/s2/shards" => g10(case, obs),
        "F/i64/bfv-u32/s1/noshards" => g11(case, obs),
        "F/u128/box-u16/s2/noshards" => g12(case, obs),
        "F/u128/bfv-u8/s1/noshards" => g13(case, obs),
        other => panic!("unknown combo {other}"),
    }
}

/// Build once, inside the current shuttle execution, and judge.
pub fn build_and_judge(case: &BuilderCase) -> BuildObs {
    let mut obs = BuildObs::default();
    let plan = case.disk.as_ref().map(|d| d.to_plan()).unwrap_or_default();
    verif_rt::simfs::install(plan);
    dispatch(case, &mut obs);
    verif_rt::simfs::uninstall();
    obs
}

// ---------------------------------------------------------------------------------------------
// generation

fn n_regime(n: usize) -> &'static str {
    match n {
        0 => "0",
        1..=9 => "1-9",
        10..=99 => "10-99",
        100..=130 => "100-130",
        131..=999 => "131-999",
        1000..=9999 => "1k-10k",
        10000..=99_999 => "10k-100k",
        100_000..=199_999 => "100k-200k",
        200_000..=799_999 => "200k-800k",
        _ => "800k+",
    }
}

fn draw_hint(rng: &mut Rng, n: usize, allow_other_regime: bool) -> (Option<usize>, String) {
    let k = rng.weighted(&[3, 4, 2, 1, 2, if allow_other_regime { 2 } else { 0 }]);
    match k {
        0 => (None, "absent".into()),
        1 => (Some(n), "exact".into()),
        2 => (Some(n / 2), "half".into()),
        3 => (Some(1.min(n)), "one".into()),
        4 => (Some(2 * n + 1), "double".into()),
        _ => {
            // a hint in a sharding regime the actual key count does not reach
            let h = *rng.pick(&[100_000usize, 150_000, 250_000, 400_000, 799_999, 800_000]);
            (Some(h), "other_regime".into())
        }
    }
}

fn draw_sched(rng: &mut Rng, iters: usize) -> Sched {
    match rng.below(10) {
        0..=5 => Sched { kind: "random".into(), depth: 0, seed: rng.next_u64(), iters },
        _ => Sched { kind: "pct".into(), depth: rng.urange(1, 4), seed: rng.next_u64(), iters: iters.max(2) },
    }
}

fn base_case(rng: &mut Rng, mode: &str, n: usize, iters: usize) -> BuilderCase {
    let combo = if mode == "func" { rng.pick(FUNC_COMBOS).to_string() } else { rng.pick(FILTER_COMBOS).to_string() };
    let wb = combo_word_bits(&combo);
    let n = n.min(combo_max_n(&combo));
    let key_kind = if matches!(combo_key(&combo), "str" | "string") { rng.pick(&["plain", "prefix"]).to_string() } else { rng.pick(&["range", "scatter", "scatter", "high"]).to_string() };
    let val_kind = rng.pick(&["identity", "identity", "random", "random", "zero", "allones"]).to_string();
    let (hint, hint_kind) = draw_hint(rng, n, true);
    BuilderCase {
        mode: mode.into(),
        combo,
        key_kind,
        key_seed: rng.next_u64(),
        n,
        val_kind,
        val_width: rng.urange(1, wb as usize) as u32,
        hint,
        hint_kind,
        offline: rng.chance(1, 3),
        low_mem: *rng.pick(&[None, Some(true), Some(false)]),
        threads: *rng.pick(&[1usize, 1, 2, 3, 4, 8, 16]),
        eps: if rng.chance(1, 4) { Some(*rng.pick(&[0.0001, 0.01, 0.1, 1.0])) } else { None },
        log2_buckets: if rng.chance(1, 3) { Some(rng.urange(0, 10) as u32) } else { None },
        bseed: rng.next_u64(),
        check_dups: rng.chance(1, 4),
        filter_bits: rng.urange(1, wb as usize),
        dups: vec![],
        dup_sweep: false,
        single: false,
        faults: vec![],
        disk: None,
        sched: draw_sched(rng, iters),
        probes: 0,
        key_source: None,
    }
}

fn legal_disk(rng: &mut Rng) -> Option<DiskCfg> {
    if rng.chance(1, 2) {
        Some(DiskCfg {
            passthrough: rng.chance(1, 10),
            short_write_max: if rng.chance(1, 2) { Some(*rng.pick(&[1usize, 3, 7, 24, 100, 4096])) } else { None },
            short_read_max: if rng.chance(1, 2) { Some(*rng.pick(&[1usize, 3, 7, 24, 100, 4096])) } else { None },
            eintr_every: if rng.chance(1, 3) { Some(rng.range(2, 9)) } else { None },
            write_budget: None,
            read_budget: None,
            open_fail_at: None,
            seek_fail_at: None,
        })
    } else {
        None
    }
}

fn legal_key_source(rng: &mut Rng) -> KeySrc {
    KeySrc {
        kind: rng.pick(&["line", "line", "gzip", "zstd"]).to_string(),
        bufcap: *rng.pick(&[1usize, 3, 7, 64, 8192]),
        plan: crate::worlds::lenders::IoPlan {
            max_read: *rng.pick(&[1usize, 2, 7, 64, 1000, 1 << 20]),
            eintr_every: if rng.chance(1, 3) { rng.range(2, 9) } else { 0 },
            eintr_burst: rng.range(1, 3),
            fail_at_byte: None,
            fail_seek: None,
            fail_kind: 0,
            truncate_at: None,
        },
    }
}

fn is_lender_combo(combo: &str) -> bool {
    combo == "f/str/bfv-usize/s2/noshards" || combo == "f/str/box-u16/s2/shards"
}

impl KeySrc {
    fn has_hard(&self) -> bool {
        self.plan.fail_at_byte.is_some() || self.plan.fail_seek.is_some() || self.plan.truncate_at.is_some()
    }
}

pub fn gen_c07(tier: Tier, run: u64, rng: &mut Rng) -> BuilderCase {
    let quick = tier == Tier::Quick;
    // systematic part: every n in 0..=130
    let n = if run <= 130 {
        run as usize
    } else if quick {
        match rng.below(100) {
            0..=59 => rng.urange(0, 130),
            60..=89 => rng.urange(131, 3000),
            90..=97 => rng.urange(3000, 20_000),
            _ => *rng.pick(&[100_000usize, 100_001, 120_000, 200_000]),
        }
    } else {
        match rng.below(1000) {
            0..=499 => rng.urange(0, 130),
            500..=849 => rng.urange(131, 3000),
            850..=969 => rng.urange(3000, 40_000),
            970..=989 => *rng.pick(&[99_999usize, 100_000, 100_001, 150_000, 199_999, 200_000, 250_000]),
            990..=996 => *rng.pick(&[400_000usize, 500_000]),
            _ => *rng.pick(&[800_000usize, 800_001, 1_000_000]),
        }
    };
    let iters = if n <= 130 { if quick { 4 } else { 16 } } else if n <= 3000 { 2 } else { 1 };
    let mut c = base_case(rng, "func", n, iters);
    if n >= 100_000 {
        // big builds: keep to a few type combinations that exercise sharding, one schedule
        c.combo = rng.pick(&["f/usize/bfv-usize/s2/shards", "f/usize/box-usize/s2/shards", "f/u64/bfv-u32/s2/fullsigs", "f/usize/bfv-usize/s2/mwhc-shards", "f/u64/bfv-u64/s1/noshards"]).to_string();
        c.key_kind = rng.pick(&["range", "scatter"]).to_string();
        c.sched.iters = if c.sched.kind == "pct" { 2 } else { 1 };
        c.threads = *rng.pick(&[1usize, 2, 4, 8, 16]);
        if c.combo.contains("mwhc") {
            c.eps = Some(1.0);
        }
        // absent or too-small hints make MaxShardTooBig retries likely; keep them but rarer
        let (h, k) = match rng.below(4) {
            0 => (None, "absent".to_string()),
            1 => (Some(n / 2), "half".to_string()),
            2 => (Some(2 * n + 1), "double".to_string()),
            _ => (Some(n), "exact".to_string()),
        };
        c.hint = h;
        c.hint_kind = k;
    }
    c.check_dups = rng.chance(1, 5);
    // Cheap multi-shard builds: with eps = 1 the MWHC logic shards from about 30 000 keys (2 shards) and
    // 120 000 keys (4 shards); shards are small enough for MaxShardTooBig and unsolvable retries to be
    // frequent, which exercises the retry path of the parallel solver with real shards.
    let slot = run % 7;
    if run > 130 && (slot == 3 || slot == 5) {
        c.combo = "f/usize/bfv-usize/s2/mwhc-shards".into();
        c.eps = Some(1.0);
        c.n = if slot == 3 { rng.urange(29_600, 60_000) } else { rng.urange(116_000, 135_000) };
        c.key_kind = rng.pick(&["range", "scatter"]).to_string();
        c.threads = *rng.pick(&[1usize, 1, 2, 3, 8]);
        // several schedules per multi-shard case: these are the cases in which producer, workers and main really interleave
        c.sched.iters = if slot == 3 { 4 } else { 2 };
        let (h, k) = match rng.below(3) {
            0 => (None, "absent".to_string()),
            1 => (Some(c.n), "exact".to_string()),
            _ => (Some(2 * c.n + 1), "double".to_string()),
        };
        c.hint = h;
        c.hint_kind = k;
        c.val_kind = rng.pick(&["identity", "random"]).to_string();
        // all three bucket/shard relations of the store under real sharding, online and on the simulated disk:
        // without a hint the bucket count is the knob (0 bits => buckets are split into shards)
        c.offline = rng.chance(1, 2);
        c.log2_buckets = if c.hint.is_none() { Some(*rng.pick(&[0u32, 0, 1, 2, 8])) } else { None };
    } else if run > 130 && run % 29 == 11 {
        // 8 and 16 real shards
        c.combo = rng.pick(&["f/usize/bfv-usize/s2/shards", "f/usize/box-usize/s2/shards"]).to_string();
        c.n = *rng.pick(&[400_000usize, 450_000, 800_000]);
        c.key_kind = rng.pick(&["range", "scatter"]).to_string();
        c.threads = *rng.pick(&[1usize, 2, 4, 8, 16]);
        c.sched.iters = if c.sched.kind == "pct" { 2 } else { 1 };
        c.hint = Some(c.n);
        c.hint_kind = "exact".into();
        c.eps = None;
    }
    if c.offline {
        c.disk = legal_disk(rng);
    }
    if is_lender_combo(&c.combo) && c.n <= 20_000 && rng.chance(1, 2) {
        // keys through the crate's own line lenders over a simulated source (legal behaviours only)
        c.key_source = Some(legal_key_source(rng));
        c.dups.clear();
    }
    c
}

pub fn gen_c08(tier: Tier, run: u64, rng: &mut Rng) -> BuilderCase {
    let quick = tier == Tier::Quick;
    let n = if run < 40 {
        [0usize, 1, 2, 3, 7, 10, 50, 99, 100, 101, 128, 129, 130, 500, 1000, 2000][run as usize % 16]
    } else if quick {
        match rng.below(100) {
            0..=49 => rng.urange(0, 200),
            50..=93 => rng.urange(200, 5000),
            94..=98 => rng.urange(5000, 30_000),
            _ => *rng.pick(&[100_000usize, 150_000]),
        }
    } else {
        match rng.below(1000) {
            0..=399 => rng.urange(0, 200),
            400..=899 => rng.urange(200, 5000),
            900..=979 => rng.urange(5000, 50_000),
            980..=995 => *rng.pick(&[100_000usize, 100_001, 200_000, 250_000]),
            _ => *rng.pick(&[500_000usize, 800_001]),
        }
    };
    let iters = if n <= 200 { 2 } else { 1 };
    let mut c = base_case(rng, "filter", n, iters);
    if run < 2 * FILTER_COMBOS.len() as u64 {
        c.combo = FILTER_COMBOS[run as usize % FILTER_COMBOS.len()].to_string();
        c.key_kind = if combo_key(&c.combo) == "str" { "plain".into() } else { "scatter".into() };
    }
    if n >= 100_000 {
        c.combo = rng.pick(&["F/usize/box-u8/s2/shards", "F/usize/bfv-usize/s2/shards", "F/usize/bfv-u64/s2/fullsigs", "F/usize/bfv-u16/s2/mwhc-shards"]).to_string();
        c.key_kind = "scatter".into();
        c.sched.iters = if c.sched.kind == "pct" { 2 } else { 1 };
        if c.combo.contains("mwhc") {
            c.eps = Some(1.0);
        }
        c.hint = Some(n);
        c.hint_kind = "exact".into();
    }
    let wb = combo_word_bits(&c.combo);
    // bias filter widths to the extremes and to every width over time
    c.filter_bits = match rng.below(6) {
        0 => 1,
        1 => wb as usize,
        2 => (wb as usize - 1).max(1),
        _ => rng.urange(1, wb as usize),
    };
    c.check_dups = rng.chance(1, 6);
    c.probes = if quick { 20_000 } else { 100_000 };
    if c.offline {
        c.disk = legal_disk(rng);
    }
    c
}

/// C17 cases are *templates*: `execute` enumerates every single-fault placement for the input.
pub fn gen_c17(tier: Tier, run: u64, rng: &mut Rng) -> BuilderCase {
    let quick = tier == Tier::Quick;
    let mode = if rng.chance(2, 3) { "func" } else { "filter" };
    let big = !quick && run % 97 == 96;
    let n = if big { *rng.pick(&[20_000usize, 100_000]) } else if quick { rng.urange(0, 48) } else { rng.urange(0, 200) };
    let mut c = base_case(rng, mode, n, 1);
    // keep hints inside the regime: the hint-too-large behaviour belongs to C07
    let (h, k) = match rng.below(4) {
        0 => (None, "absent".to_string()),
        1 => (Some(n / 2), "half".to_string()),
        2 => (Some(2 * n + 1), "double".to_string()),
        _ => (Some(n), "exact".to_string()),
    };
    c.hint = h;
    c.hint_kind = k;
    c.sched.iters = 1;
    c.sched.kind = "random".into();
    // scenario
    match run % 4 {
        0 | 1 => {
            // duplicates: forces 4 passes, so later passes are reachable
            c.check_dups = true;
            if n > 0 {
                let mult = *rng.pick(&[1usize, 1, 1, 2, 3, 9]);
                let src = rng.usize_below(n);
                for _ in 0..mult {
                    let pos = match rng.below(5) {
                        0 => 0,
                        1 => n,
                        2 => src + 1,
                        3 => n / 2,
                        _ => rng.urange(0, n),
                    };
                    c.dups.push((src, pos));
                }
                if rng.chance(1, 4) {
                    let src2 = rng.usize_below(n);
                    c.dups.push((src2, rng.urange(0, n)));
                }
            }
        }
        2 => {
            // plain input: faults on pass 0 and on natural retries
            c.check_dups = rng.chance(1, 2);
        }
        _ => {
            // simulated disk under the offline store
            c.offline = true;
            c.check_dups = rng.chance(1, 3);
        }
    }
    let multi = run % 23 == 22;
    if multi {
        // a duplicate inside a really sharded build with fewer threads than shards (MWHC, eps = 1: 2 shards from ~30k keys)
        c.mode = "func".into();
        c.combo = "f/usize/bfv-usize/s2/mwhc-shards".into();
        c.eps = Some(1.0);
        c.n = rng.urange(29_600, 45_000);
        c.threads = *rng.pick(&[1usize, 1, 2]);
        c.key_kind = "scatter".into();
        c.check_dups = true;
        c.offline = false;
        c.disk = None;
        c.hint = Some(c.n);
        c.hint_kind = "exact".into();
        c.dups = vec![(rng.usize_below(c.n), rng.urange(0, c.n))];
        c.low_mem = None;
    }
    if run % 53 == 52 && !big {
        // four real shards, at least three worker threads, duplicates in several shards: several workers fail in the same attempt
        c.mode = "func".into();
        c.combo = "f/usize/bfv-usize/s2/mwhc-shards".into();
        c.eps = Some(1.0);
        c.n = rng.urange(116_000, 135_000);
        c.threads = *rng.pick(&[3usize, 4, 8]);
        c.key_kind = "scatter".into();
        c.check_dups = true;
        c.offline = false;
        c.disk = None;
        c.key_source = None;
        c.hint = Some(c.n);
        c.hint_kind = "exact".into();
        c.dups = (0..rng.urange(4, 7)).map(|_| (rng.usize_below(c.n), rng.urange(0, c.n))).collect();
        c.low_mem = None;
        c.sched = draw_sched(rng, 2);
    }
    if big {
        c.check_dups = true;
        c.dups = vec![(rng.usize_below(n), rng.urange(0, n))];
        c.combo = if mode == "func" { "f/usize/bfv-usize/s2/shards".into() } else { "F/usize/box-u8/s2/shards".into() };
        c.key_kind = "scatter".into();
        c.hint = Some(n);
        c.hint_kind = "exact".into();
    }
    if c.offline && run % 4 != 3 {
        c.disk = legal_disk(rng);
    }
    c.probes = 0;
    if run % 5 == 4 && !multi && !big {
        // the key source is one of the crate's own line lenders over a simulated byte source
        c.mode = "func".into();
        c.combo = rng.pick(&["f/str/bfv-usize/s2/noshards", "f/str/box-u16/s2/shards"]).to_string();
        c.key_kind = rng.pick(&["plain", "prefix"]).to_string();
        c.val_width = c.val_width.min(16);
        c.dups.clear();
        c.key_source = Some(legal_key_source(rng));
    }
    if (run % 97 == 40 || (!quick && run % 31 == 7)) && !big {
        // duplicate sweep: a single shard of more than 1024 keys, every key in turn delivered twice
        c.mode = "func".into();
        c.combo = rng.pick(&["f/usize/bfv-usize/s2/shards", "f/u64/bfv-u64/s1/noshards", "f/usize/box-u32/s2/fullsigs"]).to_string();
        c.n = rng.urange(1100, 2600);
        c.key_kind = "scatter".into();
        c.val_kind = rng.pick(&["identity", "random", "zero"]).to_string();
        c.check_dups = true;
        c.dups.clear();
        c.offline = false;
        c.disk = None;
        c.key_source = None;
        c.hint = Some(c.n);
        c.hint_kind = "exact".into();
        c.threads = *rng.pick(&[1usize, 2, 4]);
        c.dup_sweep = true;
        c.eps = None;
        c.low_mem = None;
        c.sched = draw_sched(rng, 1);
        c.val_width = c.val_width.min(combo_word_bits(&c.combo));
    }
    c
}

// ---------------------------------------------------------------------------------------------
// execution

fn stack_mb(n: usize) -> usize {
    if n <= 20_000 {
        2
    } else {
        64
    }
}

/// Run one configured build (possibly several schedules) under shuttle and fold the result into `out`.
fn run_scheduled(case: &BuilderCase, out: &mut Outcome) -> Vec<BuildObs> {
    let shared: Arc<Mutex<Vec<BuildObs>>> = Arc::new(Mutex::new(Vec::new()));
    let sh = shared.clone();
    let c = case.clone();
    let rep = shuttle_run::run(&case.sched, stack_mb(case.n + case.dups.len()), move || {
        let obs = build_and_judge(&c);
        sh.lock().unwrap().push(obs);
    });
    let obs: Vec<BuildObs> = std::mem::take(&mut *shared.lock().unwrap());
    out.steps += rep.sched_points;
    out.trace = Some(out.trace.unwrap_or(0) ^ rep.trace_hash);
    out.probe("shuttle.executions", rep.executions as u64);
    for o in &obs {
        out.steps += o.items + o.rewinds;
        out.checks += o.checks;
        out.fault_n("io.err.item", o.item_faults);
        out.fault_n("lender.rewind", o.rewind_faults);
        if case.key_source.is_some() {
            out.fault_n("keysource.real_lender", 1);
        }
        if let Some(d) = &o.disk {
            out.fault_n("io.short.write", d.short_writes);
            out.fault_n("io.short.read", d.short_reads);
            out.fault_n("io.eintr", d.eintr);
            out.fault_n("disk.enospc", d.enospc);
            out.fault_n("disk.eio", d.eio);
            out.fault_n("disk.open", d.open_failed);
            out.fault_n("disk.seek", d.seek_failed);
            out.probe("disk.bytes_written", d.bytes_written);
            out.probe("disk.bytes_read", d.bytes_read);
        }
        if o.fpr_probes > 0 {
            out.probe(&format!("fpr.b{}.probes", o.hash_bits), o.fpr_probes);
            out.probe(&format!("fpr.b{}.positives", o.hash_bits), o.fpr_pos);
        }
        if o.key_passes > 1 {
            out.probe("retry_passes", o.key_passes - 1);
        }
        if let Some(v) = &o.violation {
            out.fail(v.clone());
        }
    }
    if rep.failure.is_some() {
        // the closure did not reach its end: collect the disk statistics of the interrupted build
        let d = verif_rt::simfs::uninstall();
        out.fault_n("io.short.write", d.short_writes);
        out.fault_n("io.short.read", d.short_reads);
        out.fault_n("io.eintr", d.eintr);
        out.fault_n("disk.enospc", d.enospc);
        out.fault_n("disk.eio", d.eio);
        out.fault_n("disk.open", d.open_failed);
        out.fault_n("disk.seek", d.seek_failed);
    }
    if let Some(msg) = rep.failure {
        // a failure of the shuttle run itself: deadlock, step bound, or a panic inside a task
        let disk_hard = case.disk.as_ref().map(|d| d.has_hard()).unwrap_or(false);
        let simfs_panic = msg.contains("simfs");
        if msg.contains("SIM_BUDGET") {
            out.fail(Violation::new(
                "hang",
                format!(
                    "builder:{}:pass_budget_exceeded:{}:{}",
                    case.mode,
                    if case.combo.contains("mwhc") { "mwhc" } else { "fuse" },
                    if case.n <= 9 { "n<=9" } else { "n>9" }
                ),
                format!("the build exceeded its pass budget: {msg}"),
                "termination within a bounded number of attempts",
            ));
        } else if msg.to_lowercase().contains("deadlock") {
            out.fail(Violation::new("deadlock", format!("builder:{}:deadlock", case.mode), format!("shuttle: {msg}"), "no schedule blocks every thread"));
        } else if msg.contains("exceeded max_steps") || msg.contains("max_steps") {
            out.fail(Violation::new("hang", format!("builder:{}:step_bound", case.mode), format!("shuttle: {msg}"), "termination within the step budget"));
        } else if disk_hard && simfs_panic {
            // documented design choice: iteration over a failing disk may panic by unwinding
            out.bucket(format!("builder/{}/panic_on_disk_fault", case.mode));
            out.probe("disk.panic_accepted", 1);
        } else {
            out.fail(Violation::new(
                "panic",
                format!("builder:{}:panic:{}", case.mode, normalise_msg(&msg)),
                format!("panic inside the build: {msg} [{}]", last_panic()),
                "Ok or Err, no panic",
            ));
        }
    }
    obs
}

fn bucket_of(case: &BuilderCase, o: &BuildObs) -> String {
    format!(
        "{}|n={}|hint={}|{}|lowmem={:?}|thr={}|passes={}|dups={}|{}",
        case.combo,
        n_regime(case.n),
        case.hint_kind,
        if case.offline { "offline" } else { "online" },
        case.low_mem,
        match case.threads {
            1 => "1",
            2..=4 => "2-4",
            _ => "8+",
        },
        o.key_passes.min(5),
        case.dups.len().min(3),
        o.outcome
    )
}

/// Enumerate every single-fault placement for a C17 template.
pub fn c17_placements(case: &BuilderCase, key_passes: u64, total_keys: u64, rewinds: u64, disk_written: u64, disk_read: u64) -> Vec<BuilderCase> {
    let mut v = Vec::new();
    let mut with = |f: LFault| {
        let mut c = case.clone();
        c.faults = vec![f];
        v.push(c);
    };
    // complete for ordinary templates; a spread of positions for the few big ones, and at most the first
    // four passes plus the last one when natural retries made the reference run long
    let idx: Vec<u64> = if total_keys <= 400 { (0..=total_keys).collect() } else { vec![0, 1, total_keys / 2, total_keys - 1, total_keys] };
    let passes: Vec<u64> = if key_passes <= 6 { (0..key_passes).collect() } else { vec![0, 1, 2, 3, key_passes - 1] };
    for &p in &passes {
        for &i in &idx {
            with(LFault { source: "keys".into(), kind: "item".into(), pass: p, index: i });
        }
        if case.mode == "func" {
            for &i in idx.iter().filter(|&&i| i < total_keys) {
                with(LFault { source: "values".into(), kind: "item".into(), pass: p, index: i });
            }
        }
    }
    let rewinds = rewinds.min(6);
    for r in 0..rewinds {
        with(LFault { source: "keys".into(), kind: "rewind".into(), pass: 0, index: r });
        if case.mode == "func" {
            with(LFault { source: "values".into(), kind: "rewind".into(), pass: 0, index: r });
        }
    }
    if let Some(ks) = &case.key_source {
        // faults of the byte source under the real lender replace the key-item placements
        v.retain(|c| c.faults.iter().all(|f| f.source != "keys"));
        let mut withk = |f: &dyn Fn(&mut crate::worlds::lenders::IoPlan)| {
            let mut c = case.clone();
            let mut k = ks.clone();
            f(&mut k.plan);
            c.key_source = Some(k);
            v.push(c);
        };
        for j in 0..18u64 {
            withk(&|p| {
                p.fail_at_byte = Some(j.wrapping_mul(1_000_003).wrapping_add(j * j));
                p.fail_kind = (j % 6) as u8;
            });
        }
        if ks.kind != "line" {
            for j in 0..6u64 {
                withk(&|p| p.truncate_at = Some(1 + j.wrapping_mul(7_919)));
            }
        }
        for j in 0..key_passes.min(4) {
            withk(&|p| p.fail_seek = Some(j));
        }
    }
    if case.offline {
        let base = case.disk.clone().unwrap_or(DiskCfg {
            passthrough: false,
            short_write_max: None,
            short_read_max: None,
            eintr_every: None,
            write_budget: None,
            read_budget: None,
            open_fail_at: None,
            seek_fail_at: None,
        });
        let mut withd = |d: DiskCfg| {
            let mut c = case.clone();
            c.disk = Some(d);
            v.push(c);
        };
        // write budget at a spread of byte positions (every position would be quadratic)
        let steps = 12u64;
        for s in 0..steps {
            let b = disk_written * s / steps;
            let mut d = base.clone();
            d.write_budget = Some(b);
            withd(d);
        }
        for s in 0..steps {
            let b = disk_read * s / steps;
            let mut d = base.clone();
            d.read_budget = Some(b);
            withd(d);
        }
        for k in [0u64, 1, 7, 255] {
            let mut d = base.clone();
            d.open_fail_at = Some(k);
            withd(d);
        }
        for k in [0u64, 1, 2, 100] {
            let mut d = base.clone();
            d.seek_fail_at = Some(k);
            withd(d);
        }
    }
    v
}

pub struct BuilderWorld;

impl World for BuilderWorld {
    type Case = BuilderCase;
    const NAME: &'static str = "builder";

    fn generate(prop: &str, tier: Tier, run: u64, rng: &mut Rng) -> BuilderCase {
        match prop {
            "C08" => gen_c08(tier, run, rng),
            "C17" => gen_c17(tier, run, rng),
            _ => gen_c07(tier, run, rng),
        }
    }

    fn execute(prop: &str, case: &BuilderCase) -> Outcome {
        let mut out = Outcome::default();
        out.nontrivial = case.n > 0;
        if prop == "C17" && !case.single && case.faults.is_empty() && !case.disk.as_ref().map(|d| d.has_hard()).unwrap_or(false) && !case.key_source.as_ref().map(|k| k.has_hard()).unwrap_or(false) {
            // template: fault-free reference run first, then every single-fault placement
            let obs = run_scheduled(case, &mut out);
            let Some(o) = obs.first() else {
                return out;
            };
            out.bucket(bucket_of(case, o));
            if out.violation.is_some() {
                return out;
            }
            let total = (case.n + case.dups.len()) as u64;
            let d = o.disk.clone().unwrap_or_default();
            let mut placements = c17_placements(case, o.key_passes, total, o.rewinds.div_ceil(2).max(o.key_passes.saturating_sub(1)), d.bytes_written, d.bytes_read);
            if case.dup_sweep {
                // every key in turn delivered twice (same value): the duplicate must be reported wherever the pair
                // lands in the sorted shard of whichever attempt
                placements = (0..case.n)
                    .map(|i| {
                        let mut c = case.clone();
                        c.dup_sweep = false;
                        c.single = true;
                        c.check_dups = true;
                        c.dups = vec![(i, case.n)];
                        c
                    })
                    .collect();
                out.probe("c17.dup_sweep_templates", 1);
            }
            // a reference run with hundreds of natural retries makes every placement that expensive: such
            // templates are thinned to about 150 placements (recorded in the evidence)
            let placements: Vec<BuilderCase> = if !case.dup_sweep && o.key_passes > 40 && placements.len() > 150 {
                out.probe("c17.thinned_templates", 1);
                let k = placements.len().div_ceil(150);
                placements.into_iter().step_by(k).collect()
            } else {
                placements
            };
            // cost bound, a pure function of the reference run: a placement costs about as many passes as the reference
            // run (natural retries included), and with the pass-through disk every pass creates 2^log2_buckets real files
            let weight = (o.key_passes.max(1) as usize)
                * if case.offline && case.disk.as_ref().map(|d| d.passthrough).unwrap_or(false) { 1 + (1usize << case.log2_buckets.unwrap_or(8).min(12)) / 8 } else { 1 };
            let max_placements = (60_000 / weight).max(12);
            let placements: Vec<BuilderCase> = if !case.dup_sweep && placements.len() > max_placements {
                out.probe("c17.cost_thinned_templates", 1);
                let k = placements.len().div_ceil(max_placements);
                placements.into_iter().step_by(k).collect()
            } else {
                placements
            };
            out.probe("c17.placements", placements.len() as u64);
            out.probe("c17.templates", 1);
            for p in placements {
                progress();
                let mut sub = Outcome::default();
                let pobs = run_scheduled(&p, &mut sub);
                out.steps += sub.steps;
                out.checks += sub.checks + 1;
                for (k, v) in sub.faults {
                    *out.faults.entry(k).or_insert(0) += v;
                }
                for (k, v) in sub.probes {
                    *out.probes.entry(k).or_insert(0) += v;
                }
                for b in sub.buckets {
                    out.bucket(b);
                }
                if let Some(po) = pobs.first() {
                    let fk = p.faults.first().map(|f| format!("{}.{}.p{}", f.source, f.kind, f.pass.min(4))).unwrap_or_else(|| {
                        match &p.key_source {
                            Some(k) if k.has_hard() => format!("keysource.{}.{}", k.kind, if k.plan.truncate_at.is_some() { "truncated" } else if k.plan.fail_seek.is_some() { "seek" } else { "read_error" }),
                            _ if p.single => "dup_sweep".into(),
                            _ => "disk".into(),
                        }
                    });
                    out.bucket(format!("{}|{}|{}|{}", case.mode, if case.offline { "offline" } else { "online" }, fk, po.outcome));
                }
                if let Some(v) = sub.violation {
                    // re-express as a stand-alone case so that the replay is the single failing placement
                    out.violation = Some(v);
                    out.probes.insert("c17.failing_placement".into(), 1);
                    FAILING_PLACEMENT.with(|f| *f.borrow_mut() = Some(p.clone()));
                    return out;
                }
            }
            return out;
        }
        let obs = run_scheduled(case, &mut out);
        for o in &obs {
            out.bucket(bucket_of(case, o));
        }
        out
    }

    fn shrink(prop: &str, case: &BuilderCase) -> Vec<BuilderCase> {
        let mut v = Vec::new();
        // a failing placement found while enumerating a template: jump to it first
        if prop == "C17" {
            if let Some(p) = FAILING_PLACEMENT.with(|f| f.borrow_mut().take()) {
                v.push(p);
            }
        }
        let mut push = |c: BuilderCase| {
            if &c != case {
                v.push(c);
            }
        };
        // fewer keys
        for n in [0usize, 1, case.n / 2, case.n.saturating_sub(1)] {
            if n < case.n {
                let mut c = case.clone();
                c.n = n;
                c.dups.retain(|d| d.0 < n.max(1));
                for f in c.faults.iter_mut() {
                    f.index = f.index.min(n as u64 + c.dups.len() as u64);
                }
                push(c);
            }
        }
        if case.dups.len() > 1 {
            for i in 0..case.dups.len() {
                let mut c = case.clone();
                c.dups.remove(i);
                push(c);
            }
        }
        if case.faults.len() > 1 {
            for i in 0..case.faults.len() {
                let mut c = case.clone();
                c.faults.remove(i);
                push(c);
            }
        }
        for f in 0..case.faults.len() {
            if case.faults[f].index > 0 {
                let mut c = case.clone();
                c.faults[f].index /= 2;
                push(c);
            }
        }
        if case.sched.iters > 1 {
            let mut c = case.clone();
            c.sched.iters = 1;
            push(c);
        }
        if case.sched.kind != "rr" {
            let mut c = case.clone();
            c.sched = Sched { kind: "rr".into(), depth: 0, seed: 0, iters: 1 };
            push(c);
        }
        if case.threads > 1 {
            let mut c = case.clone();
            c.threads = 1;
            push(c);
        }
        if case.offline && case.disk.is_some() && !case.disk.as_ref().unwrap().has_hard() {
            let mut c = case.clone();
            c.disk = None;
            push(c);
        }
        if case.offline && case.disk.is_none() {
            let mut c = case.clone();
            c.offline = false;
            push(c);
        }
        if let Some(k) = &case.key_source {
            if !k.has_hard() {
                let mut c = case.clone();
                c.key_source = None;
                push(c);
            } else if k.plan.eintr_every != 0 || k.plan.max_read < (1 << 20) {
                let mut c = case.clone();
                let mut k2 = k.clone();
                k2.plan.eintr_every = 0;
                k2.plan.max_read = 1 << 20;
                c.key_source = Some(k2);
                push(c);
            }
        }
        if case.low_mem.is_some() {
            let mut c = case.clone();
            c.low_mem = None;
            push(c);
        }
        if case.eps.is_some() {
            let mut c = case.clone();
            c.eps = None;
            push(c);
        }
        if case.log2_buckets.is_some() {
            let mut c = case.clone();
            c.log2_buckets = None;
            push(c);
        }
        if case.hint.is_some() && case.hint_kind != "exact" && case.hint_kind != "other_regime" {
            let mut c = case.clone();
            c.hint = Some(c.n);
            c.hint_kind = "exact".into();
            push(c);
        }
        if case.val_kind != "identity" {
            let mut c = case.clone();
            c.val_kind = "identity".into();
            push(c);
        }
        if case.key_kind == "scatter" {
            let mut c = case.clone();
            c.key_kind = "range".into();
            push(c);
        }
        if case.probes > 1000 && prop != "C08" {
            let mut c = case.clone();
            c.probes = 0;
            push(c);
        }
        if case.check_dups && case.dups.is_empty() {
            let mut c = case.clone();
            c.check_dups = false;
            push(c);
        }
        v
    }
}

thread_local! {
    static FAILING_PLACEMENT: std::cell::RefCell<Option<BuilderCase>> = const { std::cell::RefCell::new(None) };
}

#[allow(dead_code)]
fn _assert_traits() {
    fn len_of<T: BitFieldSliceCore<usize>>(t: &T) -> usize {
        t.len()
    }
    let _ = len_of::<BitFieldVec<usize>>;
}
