//! `serde` world (C15): serialization is the library's only durable state; a reload is a
//! restart in which only the bytes survive. Every serializable family is serialized into a
//! simulated sink (short writes, EINTR, hard error) and reloaded by every loading path
//! (full copy from a simulated source with short reads / EINTR, zero-copy from an aligned
//! buffer at a slack offset, load_full / load_mem / load_mmap / mmap from a real file); every
//! query must answer as on the original instance.

use crate::core::model::*;
use crate::core::rng::{splitmix64, Rng};
use crate::core::world::*;
use crate::util::shuttle_run::{self, Sched};
use dsi_progress_logger::no_logging;
use epserde::prelude::*;
use serde::{Deserialize as SerdeDe, Serialize as SerdeSer};
use std::io::{self, Read, Write};
use std::sync::{Arc, Mutex};
use sux::bits::{BitFieldVec, BitVec};
use sux::dict::elias_fano::*;
use sux::dict::{RearCodedListBuilder, VFilter};
use sux::func::shard_edge::*;
use sux::func::{VBuilder, VFunc};
use sux::prelude::*;
use sux::utils::FromIntoIterator;

#[derive(Clone, Debug, SerdeSer, SerdeDe, PartialEq)]
pub struct SerdeCase {
    pub family: String,
    pub seed: u64,
    pub n: usize,
    /// sink: a write accepts at most this many bytes
    pub max_write: usize,
    /// source: a read delivers at most this many bytes
    pub max_read: usize,
    /// every k-th I/O call is interrupted first (0 = never)
    pub eintr_every: u64,
    /// hard write error once this many bytes were written (None = never)
    pub fail_write_at: Option<u64>,
    /// slack offset (multiple of 16) of the zero-copy buffer
    pub offset16: usize,
}

pub const FAMILIES: &[&str] = &[
    "bitvec", "bfv_usize", "bfv_u16", "bfv_u64", "addnumbits", "rank9", "ranksmall0", "ranksmall1", "ranksmall2", "ranksmall3", "ranksmall4", "select9", "sa", "sac", "sza", "szac", "ss2", "szs1",
    "sza(sa(rank9))", "szac(sac(ranksmall4))", "szs0(ss0)", "ef", "ef_seq", "ef_dict", "ef_seqdict", "rcl", "rcl_unsorted", "vfunc_bfv_shards", "vfunc_box_noshards_s1", "vfunc_fullsigs", "vfunc_mwhc",
    "vfunc_str", "vfilter_box_u8", "vfilter_bfv", "vfilter_mwhc", "bfv_u8", "bfv_u32", "vfunc_mwhc_noshards", "vfunc_noshards_s2", "vfilter_fullsigs", "vfilter_box_u64_s1", "sa_span", "rank9(sa)",
];

struct SimSink {
    data: Vec<u8>,
    max_write: usize,
    eintr_every: u64,
    fail_at: Option<u64>,
    calls: u64,
    short: u64,
    eintr: u64,
    hard: u64,
}
impl Write for SimSink {
    fn write(&mut self, buf: &[u8]) -> io::Result<usize> {
        if buf.is_empty() {
            return Ok(0);
        }
        self.calls += 1;
        if self.eintr_every > 0 && self.calls % (self.eintr_every + 1) == 0 {
            self.eintr += 1;
            return Err(io::Error::new(io::ErrorKind::Interrupted, "sim: EINTR"));
        }
        let mut n = buf.len();
        if let Some(k) = self.fail_at {
            let left = k.saturating_sub(self.data.len() as u64) as usize;
            if left == 0 {
                self.hard += 1;
                return Err(io::Error::new(io::ErrorKind::StorageFull, "sim: no space left (injected)"));
            }
            n = n.min(left);
        }
        if n > self.max_write.max(1) {
            n = self.max_write.max(1);
            self.short += 1;
        }
        self.data.extend_from_slice(&buf[..n]);
        Ok(n)
    }
    fn flush(&mut self) -> io::Result<()> {
        Ok(())
    }
}

struct SimSrc<'a> {
    data: &'a [u8],
    pos: usize,
    max_read: usize,
    eintr_every: u64,
    calls: u64,
    short: u64,
    eintr: u64,
}
impl Read for SimSrc<'_> {
    fn read(&mut self, buf: &mut [u8]) -> io::Result<usize> {
        if buf.is_empty() {
            return Ok(0);
        }
        self.calls += 1;
        if self.eintr_every > 0 && self.calls % (self.eintr_every + 1) == 0 {
            self.eintr += 1;
            return Err(io::Error::new(io::ErrorKind::Interrupted, "sim: EINTR"));
        }
        let mut n = buf.len().min(self.data.len() - self.pos);
        if n > self.max_read.max(1) {
            n = self.max_read.max(1);
            self.short += 1;
        }
        buf[..n].copy_from_slice(&self.data[self.pos..self.pos + n]);
        self.pos += n;
        Ok(n)
    }
}

fn bit(seed: u64, i: usize, dens: u64) -> bool {
    let mut x = seed ^ (i as u64).wrapping_mul(0x9E3779B97F4A7C15);
    splitmix64(&mut x) % 1000 < dens
}
fn gen_bits(c: &SerdeCase) -> BitVec {
    let dens = [500u64, 20, 980, 0, 1000][(c.seed % 5) as usize];
    let mut b: BitVec = (0..c.n).map(|i| bit(c.seed, i, dens)).collect();
    // one case in three: the vector has a history (grown past its final length with ones, then
    // popped or resized back), so the serialized backend carries stale bits and spare words
    // beyond len, which every way of loading it back must ignore exactly as the original does
    match (c.seed >> 17) % 6 {
        0 => {
            let extra = 1 + (c.seed >> 23) as usize % 130;
            for _ in 0..extra {
                b.push(true);
            }
            for _ in 0..extra {
                b.pop();
            }
        }
        1 => {
            let extra = 1 + (c.seed >> 23) as usize % 130;
            b.resize(c.n + extra, true);
            b.resize(c.n, false);
        }
        _ => {}
    }
    b
}
fn val(seed: u64, i: usize) -> u64 {
    let mut x = seed ^ (i as u64).wrapping_mul(0xD1B54A32D192ED03);
    splitmix64(&mut x)
}

type Digest = Vec<u64>;

macro_rules! d_bits {
    ($x:expr, $n:expr) => {{
        let x = &$x;
        // both the trait-qualified call and the method-call syntax a user writes (an inherent
        // method of one backend type would shadow the trait method there and only there)
        let mut d: Digest = vec![BitLength::len(x) as u64, BitCount::count_ones(x) as u64, x.len() as u64, x.count_ones() as u64, x.count_zeros() as u64];
        for i in 0..$n {
            d.push(x[i] as u64);
        }
        d
    }};
}
macro_rules! d_bitvec {
    ($x:expr, $n:expr) => {{
        let mut d = d_bits!($x, $n);
        let x = &$x;
        for i in 0..$n {
            d.push(x.get(i) as u64);
        }
        d.extend(x.iter_ones().map(|p| p as u64));
        d.extend(x.iter_zeros().map(|p| p as u64));
        d.extend(x.iter().map(|b| b as u64));
        d
    }};
}
macro_rules! d_bfv {
    ($x:expr, $n:expr) => {{
        let x = &$x;
        let mut d: Digest = vec![BitFieldSliceCore::len(x) as u64, BitFieldSliceCore::bit_width(x) as u64];
        for i in 0..$n {
            d.push(x.get(i) as u64);
        }
        d
    }};
}
macro_rules! d_rank {
    ($x:expr, $n:expr) => {{
        let x = &$x;
        let mut d: Digest = vec![BitLength::len(x) as u64, NumBits::num_ones(x) as u64, x.len() as u64, x.num_ones() as u64, x.num_zeros() as u64];
        let step = ($n / 3000).max(1);
        let mut p = 0;
        while p <= $n + 2 {
            d.push(Rank::rank(x, p) as u64);
            d.push(RankZero::rank_zero(x, p) as u64);
            d.push(x.rank(p) as u64);
            if p < $n {
                d.push(x[p] as u64);
            }
            p += step;
        }
        d
    }};
}
macro_rules! d_sel {
    ($x:expr, $n:expr) => {{
        let x = &$x;
        let ones = NumBits::num_ones(x);
        let mut d: Digest = vec![BitLength::len(x) as u64, ones as u64, x.len() as u64, x.num_ones() as u64, x.num_zeros() as u64];
        let step = (ones / 3000).max(1);
        let mut r = 0;
        while r < ones + 2 {
            d.push(Select::select(x, r).map(|v| v as u64 + 1).unwrap_or(0));
            d.push(x.select(r).map(|v| v as u64 + 1).unwrap_or(0));
            r += step;
        }
        d
    }};
}
macro_rules! d_selz {
    ($x:expr, $n:expr) => {{
        let x = &$x;
        let zeros = NumBits::num_zeros(x);
        let mut d: Digest = vec![BitLength::len(x) as u64, zeros as u64];
        let step = (zeros / 3000).max(1);
        let mut r = 0;
        while r < zeros + 2 {
            d.push(SelectZero::select_zero(x, r).map(|v| v as u64 + 1).unwrap_or(0));
            d.push(x.select_zero(r).map(|v| v as u64 + 1).unwrap_or(0));
            r += step;
        }
        d
    }};
}
macro_rules! d_rank_sel {
    ($x:expr, $n:expr) => {{
        let mut d = d_rank!($x, $n);
        d.extend(d_sel!($x, $n));
        d
    }};
}
macro_rules! d_sel_selz {
    ($x:expr, $n:expr) => {{
        let mut d = d_sel!($x, $n);
        d.extend(d_selz!($x, $n));
        d
    }};
}
macro_rules! d_all {
    ($x:expr, $n:expr) => {{
        let mut d = d_rank!($x, $n);
        d.extend(d_sel!($x, $n));
        d.extend(d_selz!($x, $n));
        d
    }};
}
macro_rules! d_ef_raw {
    ($x:expr, $n:expr) => {{
        let x = &$x;
        vec![x.len() as u64, format!("{:?}", x).len() as u64]
    }};
}
macro_rules! d_ef_seq {
    ($x:expr, $n:expr) => {{
        let x = &$x;
        let mut d: Digest = vec![x.len() as u64];
        for i in 0..x.len() {
            d.push(IndexedSeq::get(x, i) as u64);
            d.push(x.get(i) as u64);
        }
        d.extend(x.iter().map(|v| v as u64));
        if x.len() > 0 {
            d.extend(x.iter_from(x.len() / 2).map(|v| v as u64));
        }
        d
    }};
}
macro_rules! d_ef_dict {
    ($x:expr, $fl:expr) => {{
        // EfDict offers only the unchecked successor / predecessor
        let x = &$x;
        let (first, last): (usize, usize) = $fl;
        let mut d: Digest = vec![x.len() as u64];
        let step = ((last - first) / 500).max(1);
        let mut q = first;
        while q <= last {
            let (i, v) = unsafe { SuccUnchecked::succ_unchecked::<false>(x, q) };
            d.push((i as u64) << 32 ^ v as u64);
            let (i, v) = unsafe { PredUnchecked::pred_unchecked::<false>(x, q) };
            d.push((i as u64) << 32 ^ v as u64);
            q += step;
        }
        d
    }};
}
macro_rules! d_ef_sd {
    ($x:expr, $fl:expr) => {{
        let x = &$x;
        let (_first, last): (usize, usize) = $fl;
        let mut d: Digest = Vec::new();
        let step = (last / 500).max(1);
        let mut q = 0usize;
        // (queries above the universe bound misbehave on the original as well: that belongs to C04/C12)
        while q <= last {
            let s = Succ::succ(x, q).map(|(i, v)| (i as u64) << 32 ^ v as u64).unwrap_or(u64::MAX);
            let p = Pred::pred(x, q).map(|(i, v)| (i as u64) << 32 ^ v as u64).unwrap_or(u64::MAX);
            d.push(s);
            d.push(p);
            d.push(IndexedDict::index_of(x, q).map(|i| i as u64 + 1).unwrap_or(0));
            d.push(IndexedDict::contains(x, q) as u64);
            q += step;
        }
        d
    }};
}
macro_rules! d_ef_seqdict {
    ($x:expr, $fl:expr) => {{
        let mut d = d_ef_seq!($x, $fl);
        d.extend(d_ef_sd!($x, $fl));
        d
    }};
}
fn hstr(s: &str) -> u64 {
    crate::core::rng::hash_str(s)
}
macro_rules! d_rcl {
    ($x:expr, $probes:expr) => {{
        let x = &$x;
        let mut d: Digest = vec![x.len() as u64];
        for i in 0..x.len() {
            d.push(hstr(&IndexedSeq::get(x, i)));
            d.push(hstr(&x.get(i)));
        }
        // (iterating an empty rear-coded list panics on the original as well: that belongs to C09/C12)
        if x.len() > 0 {
            d.extend(x.iter().map(|s| hstr(&s)));
            for p in $probes.iter() {
                d.push(IndexedDict::index_of(x, p.as_str()).map(|i| i as u64 + 1).unwrap_or(0));
                d.push(x.index_of(p.as_str()).map(|i| i as u64 + 1).unwrap_or(0));
                d.push(x.contains(p.as_str()) as u64);
            }
        }
        d
    }};
}
macro_rules! d_vfunc {
    ($x:expr, $keys:expr) => {{
        let x = &$x;
        let mut d: Digest = vec![x.len() as u64];
        for k in $keys.iter() {
            d.push(x.get(k.clone()) as u64);
        }
        d
    }};
}
macro_rules! d_vfilter {
    ($x:expr, $keys:expr) => {{
        let x = &$x;
        let mut d: Digest = vec![x.len() as u64, x.hash_bits() as u64];
        for k in $keys.iter() {
            d.push(x.contains(k.clone()) as u64);
            d.push(x.get(k.clone()) as u64);
        }
        d
    }};
}

struct Io {
    short_w: u64,
    short_r: u64,
    eintr: u64,
    hard: u64,
}

/// Serialize `orig` into the simulated sink, reload it by every path, compare digests.
macro_rules! roundtrip {
    ($ty:ty, $orig:expr, $case:expr, $out:expr, $d:ident, $arg:expr) => {
        roundtrip!($ty, $orig, $case, $out, $d, $arg, $d)
    };
    // `$dz` is the digest used on the zero-copy (deserialization-type) instances, for the few
    // structures whose zero-copy type does not implement every query trait of the owned type
    ($ty:ty, $orig:expr, $case:expr, $out:expr, $d:ident, $arg:expr, $dz:ident) => {{
        let orig = $orig;
        let case: &SerdeCase = $case;
        let out: &mut Outcome = $out;
        let fam = case.family.as_str();
        let d0: Digest = $d!(*orig, $arg);
        let d0z: Digest = $dz!(*orig, $arg);
        out.steps += d0.len() as u64;
        let mut io = Io { short_w: 0, short_r: 0, eintr: 0, hard: 0 };
        // --- serialize into the simulated sink
        set_op("serialize");
        let mut sink = SimSink { data: Vec::new(), max_write: case.max_write, eintr_every: case.eintr_every, fail_at: case.fail_write_at, calls: 0, short: 0, eintr: 0, hard: 0 };
        let res = orig.serialize(&mut sink);
        io.short_w += sink.short;
        io.eintr += sink.eintr;
        io.hard += sink.hard;
        let mut proceed = true;
        match res {
            Ok(len) => {
                out.checks += 1;
                if sink.hard > 0 {
                    out.fail(Violation::new("ok_after_write_error", format!("serde:{fam}:serialize:Ok_after_hard_write_error"), format!("serialize returned Ok({len}) although the sink failed"), "Err"));
                    proceed = false;
                } else if len != sink.data.len() {
                    out.fail(Violation::new("ser_len", format!("serde:{fam}:serialize:length"), format!("returned {len}, sink holds {}", sink.data.len()), "equal"));
                    proceed = false;
                }
            }
            Err(e) => {
                if sink.hard == 0 {
                    out.fail(Violation::new("ser_failed", format!("serde:{fam}:serialize:err_without_fault"), format!("{e}"), "Ok"));
                } else {
                    out.bucket(format!("{fam}|write_error_surfaced"));
                }
                proceed = false;
            }
        }
        if proceed {
            let bytes = sink.data;
            // reference serialization into a plain Vec must give the same bytes
            let mut plain: Vec<u8> = Vec::new();
            let _ = orig.serialize(&mut plain);
            out.checks += 1;
            if plain != bytes {
                out.fail(Violation::new("ser_bytes", format!("serde:{fam}:serialize:bytes_depend_on_sink_behaviour"), format!("{} vs {} bytes", bytes.len(), plain.len()), "identical bytes"));
            }
            // serialize_with_schema must write the very same bytes
            let mut with_schema: Vec<u8> = Vec::new();
            match orig.serialize_with_schema(&mut with_schema) {
                Ok(_schema) => {
                    out.checks += 1;
                    if with_schema != bytes {
                        out.fail(Violation::new("ser_bytes", format!("serde:{fam}:serialize_with_schema:bytes_differ"), format!("{} vs {} bytes", with_schema.len(), bytes.len()), "identical bytes"));
                    }
                }
                Err(e) => out.fail(Violation::new("ser_failed", format!("serde:{fam}:serialize_with_schema:err"), format!("{e}"), "Ok")),
            }
            let mut cmp = |what: &str, d: Digest, out: &mut Outcome| {
                out.checks += 1;
                out.steps += d.len() as u64;
                let d0 = if what == "deserialize_full" || what == "load_full" { &d0 } else { &d0z };
                if &d != d0 && out.violation.is_none() {
                    let at = d.iter().zip(d0.iter()).position(|(a, b)| a != b);
                    out.fail(Violation::new(
                        "reload_differs",
                        format!("serde:{fam}:{what}:answers_differ"),
                        format!("digest of {} answers differs from the original at {at:?} (lengths {} vs {})", d.len(), d.len(), d0.len()),
                        "every query answers as on the original instance",
                    ));
                }
            };
            // --- (1) full deserialization from a simulated source
            set_op("deserialize_full");
            {
                let mut src = SimSrc { data: &bytes, pos: 0, max_read: case.max_read, eintr_every: case.eintr_every, calls: 0, short: 0, eintr: 0 };
                match <$ty>::deserialize_full(&mut src) {
                    Ok(full) => cmp("deserialize_full", $d!(full, $arg), out),
                    Err(e) => out.fail(Violation::new("deser_failed", format!("serde:{fam}:deserialize_full:err"), format!("{e}"), "Ok")),
                }
                io.short_r += src.short;
                io.eintr += src.eintr;
            }
            // --- (2) zero-copy from a 16-byte aligned copy at a slack offset
            set_op("deserialize_eps");
            {
                let off = (case.offset16 % 8) * 16;
                let mut buf: Vec<u128> = vec![0x5a5a5a5a5a5a5a5a5a5a5a5a5a5a5a5au128; (off + bytes.len()).div_ceil(16) + 2];
                let raw: &mut [u8] = unsafe { std::slice::from_raw_parts_mut(buf.as_mut_ptr() as *mut u8, buf.len() * 16) };
                raw[off..off + bytes.len()].copy_from_slice(&bytes);
                match <$ty>::deserialize_eps(&raw[off..off + bytes.len()]) {
                    Ok(eps) => cmp("deserialize_eps", $dz!(eps, $arg), out),
                    Err(e) => out.fail(Violation::new("deser_failed", format!("serde:{fam}:deserialize_eps:err"), format!("{e}"), "Ok")),
                }
            }
            // --- (3) the path-based loaders over a real temporary file
            set_op("file_loaders");
            if out.violation.is_none() {
                let dir = tempfile::tempdir().expect("tempdir");
                let path = dir.path().join("s.bin");
                std::fs::write(&path, &bytes).expect("write temp file");
                match <$ty>::load_full(&path) {
                    Ok(v) => cmp("load_full", $d!(v, $arg), out),
                    Err(e) => out.fail(Violation::new("deser_failed", format!("serde:{fam}:load_full:err"), format!("{e:#}"), "Ok")),
                }
                match <$ty>::load_mem(&path) {
                    Ok(v) => cmp("load_mem", $dz!(*v, $arg), out),
                    Err(e) => out.fail(Violation::new("deser_failed", format!("serde:{fam}:load_mem:err"), format!("{e:#}"), "Ok")),
                }
                match <$ty>::load_mmap(&path, Flags::empty()) {
                    Ok(v) => cmp("load_mmap", $dz!(*v, $arg), out),
                    Err(e) => out.fail(Violation::new("deser_failed", format!("serde:{fam}:load_mmap:err"), format!("{e:#}"), "Ok")),
                }
                match <$ty>::mmap(&path, Flags::empty()) {
                    Ok(v) => cmp("mmap", $dz!(*v, $arg), out),
                    Err(e) => out.fail(Violation::new("deser_failed", format!("serde:{fam}:mmap:err"), format!("{e:#}"), "Ok")),
                }
                out.fault_n("restart.real_file_loaders", 4);
            }
        }
        out.fault_n("io.short.write", io.short_w);
        out.fault_n("io.short.read", io.short_r);
        out.fault_n("io.eintr", io.eintr);
        out.fault_n("io.err.write", io.hard);
    }};
}

/// Build a function / filter inside a shuttle execution (the builder's threads are shuttle threads).
fn in_shuttle<T: Send + 'static>(n: usize, f: impl Fn() -> anyhow::Result<T> + Send + Sync + 'static) -> Result<T, String> {
    let slot: Arc<Mutex<Option<Result<T, String>>>> = Arc::new(Mutex::new(None));
    let s2 = slot.clone();
    let rep = shuttle_run::run(&Sched { kind: "rr".into(), depth: 0, seed: 0, iters: 1 }, if n > 20_000 { 64 } else { 2 }, move || {
        let r = f().map_err(|e| format!("{e:#}"));
        *s2.lock().unwrap() = Some(r);
    });
    if let Some(m) = rep.failure {
        return Err(format!("build failed under shuttle: {m}"));
    }
    let r = slot.lock().unwrap().take();
    r.unwrap_or(Err("no result".into()))
}

fn ef_values(c: &SerdeCase) -> (Vec<usize>, usize) {
    let n = c.n.max(1);
    let spread = [1usize, 3, 40, 1000][(c.seed % 4) as usize];
    let mut v: Vec<usize> = (0..n).map(|i| (val(c.seed, i) as usize) % (n * spread + 1)).collect();
    if (c.seed >> 9) % 5 == 0 {
        // a handful of huge values: 48..63 lower bits per element
        let keep = 1 + (c.seed >> 13) as usize % 12;
        let shift = [1u32, 1, 2, 3, 4, 8, 12][(c.seed >> 29) as usize % 7];
        v = (0..keep.min(n)).map(|i| (val(c.seed, i) >> shift) as usize).collect();
    }
    v.sort_unstable();
    let u = *v.last().unwrap() + (c.seed as usize % 3);
    (v, u.max(1))
}

fn strings(c: &SerdeCase, sorted: bool) -> Vec<String> {
    let mut v: Vec<String> = (0..c.n)
        .map(|i| {
            let r = val(c.seed, i);
            let pre = ["", "a", "http://x.org/", "http://x.org/long/shared/prefix/of/some/length/"][(r % 4) as usize];
            format!("{pre}{:x}{}", r >> 8, if r % 7 == 0 { "é€" } else { "" })
        })
        .collect();
    if sorted {
        v.sort();
        v.dedup();
    }
    v
}

fn run_family(c: &SerdeCase, out: &mut Outcome) {
    let n = c.n;
    let fam = c.family.as_str();
    macro_rules! vf {
        ($w:ty, $d:ty, $s:ty, $e:ty, $keyty:ty, $keys:expr, $vals:expr) => {{
            let keys: Arc<Vec<$keyty>> = Arc::new($keys);
            let vals: Arc<Vec<$w>> = Arc::new($vals);
            let (k2, v2) = (keys.clone(), vals.clone());
            let seed = c.seed;
            match in_shuttle(n, move || {
                VBuilder::<$w, $d, $s, $e>::default().seed(seed).expected_num_keys(k2.len()).try_build_func(
                    FromIntoIterator::from(k2.as_ref().clone()),
                    FromIntoIterator::from(v2.as_ref().clone()),
                    no_logging![],
                )
            }) {
                Ok(f) => {
                    // probe with members and non-members
                    let mut probes: Vec<$keyty> = keys.as_ref().clone();
                    probes.extend((0..200).map(|i| mk_key::<$keyty>(c.seed ^ 0xdead, n + 7 + i)));
                    roundtrip!(VFunc<$keyty, $w, $d, $s, $e>, &f, c, out, d_vfunc, probes);
                }
                Err(e) => out.fail(Violation::new("build_failed", format!("serde:{fam}:build"), e, "Ok")),
            }
        }};
    }
    macro_rules! vfl {
        ($kind:tt, $w:ty, $d:ty, $s:ty, $e:ty, $bits:expr) => {{
            let keys: Arc<Vec<usize>> = Arc::new((0..n).map(|i| mk_key::<usize>(c.seed, i)).collect());
            let k2 = keys.clone();
            let seed = c.seed;
            let bits: usize = $bits;
            match in_shuttle(n, move || vfl!(@build $kind, $w, $s, $e, seed, k2, bits)) {
                Ok(f) => {
                    let mut probes: Vec<usize> = keys.as_ref().clone();
                    probes.extend((0..2000).map(|i| mk_key::<usize>(c.seed ^ 0xdead, n + 7 + i)));
                    roundtrip!(VFilter<$w, VFunc<usize, $w, $d, $s, $e>>, &f, c, out, d_vfilter, probes);
                }
                Err(e) => out.fail(Violation::new("build_failed", format!("serde:{fam}:build"), e, "Ok")),
            }
        }};
        (@build boxed, $w:ty, $s:ty, $e:ty, $seed:ident, $k2:ident, $bits:ident) => {{
            let _ = $bits;
            VBuilder::<$w, Box<[$w]>, $s, $e>::default().seed($seed).expected_num_keys($k2.len()).try_build_filter(FromIntoIterator::from($k2.as_ref().clone()), no_logging![])
        }};
        (@build bfv, $w:ty, $s:ty, $e:ty, $seed:ident, $k2:ident, $bits:ident) => {
            VBuilder::<$w, BitFieldVec<$w>, $s, $e>::default().seed($seed).expected_num_keys($k2.len()).try_build_filter(FromIntoIterator::from($k2.as_ref().clone()), $bits, no_logging![])
        };
    }
    set_op(&format!("build:{fam}"));
    match fam {
        "bitvec" => {
            let b = gen_bits(c);
            roundtrip!(BitVec, &b, c, out, d_bitvec, n);
        }
        "bfv_usize" => {
            let w = 1 + (c.seed % 64) as usize;
            let mut v = BitFieldVec::<usize>::new(w, n);
            for i in 0..n {
                v.set(i, (val(c.seed, i) as usize) & (usize::MAX >> (64 - w)));
            }
            roundtrip!(BitFieldVec<usize>, &v, c, out, d_bfv, n);
        }
        "bfv_u16" => {
            let w = 1 + (c.seed % 16) as usize;
            let mut v = BitFieldVec::<u16>::new(w, n);
            for i in 0..n {
                v.set(i, (val(c.seed, i) as u16) & (u16::MAX >> (16 - w)));
            }
            roundtrip!(BitFieldVec<u16>, &v, c, out, d_bfv, n);
        }
        "bfv_u8" => {
            let w = (c.seed % 9) as usize;
            let mut v = BitFieldVec::<u8>::new(w, n);
            for i in 0..n {
                v.set(i, if w == 0 { 0 } else { (val(c.seed, i) as u8) & (u8::MAX >> (8 - w)) });
            }
            roundtrip!(BitFieldVec<u8>, &v, c, out, d_bfv, n);
        }
        "bfv_u32" => {
            let w = 1 + (c.seed % 32) as usize;
            let mut v = BitFieldVec::<u32>::new_unaligned(w, n);
            for i in 0..n {
                v.set(i, (val(c.seed, i) as u32) & (u32::MAX >> (32 - w)));
            }
            roundtrip!(BitFieldVec<u32>, &v, c, out, d_bfv, n);
        }
        "sa_span" => {
            let s = SelectAdapt::with_span(AddNumBits::from(gen_bits(c)), 1 << (5 + c.seed % 10), (c.seed % 5) as usize);
            roundtrip!(SelectAdapt<AddNumBits<BitVec>>, &s, c, out, d_sel, n);
        }
        "rank9(sa)" => {
            let s = Rank9::new(SelectAdapt::with_inv(AddNumBits::from(gen_bits(c)), (c.seed % 12) as usize, (c.seed % 4) as usize));
            roundtrip!(Rank9<SelectAdapt<AddNumBits<BitVec>>>, &s, c, out, d_rank_sel, n);
        }
        "bfv_u64" => {
            let w = (c.seed % 65) as usize;
            let mut v = BitFieldVec::<u64>::new(w, n);
            for i in 0..n {
                v.set(i, if w == 0 { 0 } else { val(c.seed, i) & (u64::MAX >> (64 - w)) });
            }
            roundtrip!(BitFieldVec<u64>, &v, c, out, d_bfv, n);
        }
        "addnumbits" => {
            let b: AddNumBits<BitVec> = gen_bits(c).into();
            roundtrip!(AddNumBits<BitVec>, &b, c, out, d_bits, n);
        }
        "rank9" => {
            let s = Rank9::new(gen_bits(c));
            roundtrip!(Rank9, &s, c, out, d_rank, n);
        }
        "ranksmall0" => {
            let s = RankSmall::<2, 9>::new(gen_bits(c));
            roundtrip!(RankSmall<2, 9>, &s, c, out, d_rank, n);
        }
        "ranksmall1" => {
            let s = RankSmall::<1, 9>::new(gen_bits(c));
            roundtrip!(RankSmall<1, 9>, &s, c, out, d_rank, n);
        }
        "ranksmall2" => {
            let s = RankSmall::<1, 10>::new(gen_bits(c));
            roundtrip!(RankSmall<1, 10>, &s, c, out, d_rank, n);
        }
        "ranksmall3" => {
            let s = RankSmall::<1, 11>::new(gen_bits(c));
            roundtrip!(RankSmall<1, 11>, &s, c, out, d_rank, n);
        }
        "ranksmall4" => {
            let s = RankSmall::<3, 13>::new(gen_bits(c));
            roundtrip!(RankSmall<3, 13>, &s, c, out, d_rank, n);
        }
        "select9" => {
            let s = Select9::new(Rank9::new(gen_bits(c)));
            roundtrip!(Select9, &s, c, out, d_rank_sel, n);
        }
        "sa" => {
            let s = SelectAdapt::new(AddNumBits::from(gen_bits(c)), (c.seed % 4) as usize);
            roundtrip!(SelectAdapt<AddNumBits<BitVec>>, &s, c, out, d_sel, n);
        }
        "sac" => {
            let s = SelectAdaptConst::<_, _, 6, 1>::new(AddNumBits::from(gen_bits(c)));
            roundtrip!(SelectAdaptConst<AddNumBits<BitVec>, Box<[usize]>, 6, 1>, &s, c, out, d_sel, n);
        }
        "sza" => {
            let s = SelectZeroAdapt::new(AddNumBits::from(gen_bits(c)), (c.seed % 4) as usize);
            roundtrip!(SelectZeroAdapt<AddNumBits<BitVec>>, &s, c, out, d_selz, n);
        }
        "szac" => {
            let s = SelectZeroAdaptConst::<_, _, 5, 2>::new(AddNumBits::from(gen_bits(c)));
            roundtrip!(SelectZeroAdaptConst<AddNumBits<BitVec>, Box<[usize]>, 5, 2>, &s, c, out, d_selz, n);
        }
        "ss2" => {
            let s = SelectSmall::<1, 10, _>::new(RankSmall::<1, 10>::new(gen_bits(c)));
            roundtrip!(SelectSmall<1, 10, RankSmall<1, 10>>, &s, c, out, d_rank_sel, n, d_rank);
        }
        "szs1" => {
            let s = SelectZeroSmall::<1, 9, _>::new(RankSmall::<1, 9>::new(gen_bits(c)));
            roundtrip!(SelectZeroSmall<1, 9, RankSmall<1, 9>>, &s, c, out, d_selz, n, d_rank);
        }
        "sza(sa(rank9))" => {
            let s = SelectZeroAdapt::new(SelectAdapt::new(Rank9::new(gen_bits(c)), 2), 1);
            roundtrip!(SelectZeroAdapt<SelectAdapt<Rank9>>, &s, c, out, d_all, n);
        }
        "szac(sac(ranksmall4))" => {
            let s = SelectZeroAdaptConst::<_, _, 7, 1>::new(SelectAdaptConst::<_, _, 8, 0>::new(RankSmall::<3, 13>::new(gen_bits(c))));
            roundtrip!(SelectZeroAdaptConst<SelectAdaptConst<RankSmall<3, 13>, Box<[usize]>, 8, 0>, Box<[usize]>, 7, 1>, &s, c, out, d_all, n);
        }
        "szs0(ss0)" => {
            let s = SelectZeroSmall::<2, 9, _>::new(SelectSmall::<2, 9, _>::new(RankSmall::<2, 9>::new(gen_bits(c))));
            roundtrip!(SelectZeroSmall<2, 9, SelectSmall<2, 9, RankSmall<2, 9>>>, &s, c, out, d_all, n, d_rank);
        }
        "ef" | "ef_seq" | "ef_dict" | "ef_seqdict" => {
            let (v, u) = ef_values(c);
            let mut b = EliasFanoBuilder::new(v.len(), u);
            for &x in &v {
                b.push(x);
            }
            let fl = (v[0], *v.last().unwrap());
            match fam {
                "ef" => {
                    let s = b.build();
                    roundtrip!(EliasFano, &s, c, out, d_ef_raw, n);
                }
                "ef_seq" => {
                    let s = b.build_with_seq();
                    roundtrip!(EfSeq, &s, c, out, d_ef_seq, fl);
                }
                "ef_dict" => {
                    let s = b.build_with_dict();
                    roundtrip!(EfDict, &s, c, out, d_ef_dict, fl);
                }
                _ => {
                    let s = b.build_with_seq_and_dict();
                    roundtrip!(EfSeqDict, &s, c, out, d_ef_seqdict, fl);
                }
            }
        }
        "rcl" | "rcl_unsorted" => {
            let v = strings(c, fam == "rcl");
            let k = 1 + (c.seed % 9) as usize;
            let mut b = RearCodedListBuilder::new(k);
            for s in &v {
                b.push(s);
            }
            let s = b.build();
            let mut probes: Vec<String> = v.iter().take(300).cloned().collect();
            probes.extend(v.iter().take(50).map(|s| format!("{s}zz")));
            probes.push("zzzzzz".into());
            roundtrip!(sux::dict::RearCodedList, &s, c, out, d_rcl, probes);
        }
        "vfunc_bfv_shards" => vf!(usize, BitFieldVec<usize>, [u64; 2], FuseLge3Shards, usize, (0..n).map(|i| mk_key::<usize>(c.seed, i)).collect(), (0..n).map(|i| (val(c.seed, i) & 0xfffff) as usize).collect()),
        "vfunc_box_noshards_s1" => vf!(u16, Box<[u16]>, [u64; 1], FuseLge3NoShards, u64, (0..n).map(|i| mk_key::<u64>(c.seed, i)).collect(), (0..n).map(|i| val(c.seed, i) as u16).collect()),
        "vfunc_fullsigs" => vf!(u64, BitFieldVec<u64>, [u64; 2], FuseLge3FullSigs, usize, (0..n).map(|i| mk_key::<usize>(c.seed, i)).collect(), (0..n).map(|i| val(c.seed, i) >> 20).collect()),
        "vfunc_mwhc" => vf!(usize, Box<[usize]>, [u64; 2], Mwhc3Shards, usize, (0..n).map(|i| mk_key::<usize>(c.seed, i)).collect(), (0..n).map(|i| i).collect()),
        "vfunc_str" => vf!(usize, BitFieldVec<usize>, [u64; 2], FuseLge3NoShards, String, (0..n).map(|i| mk_key::<String>(c.seed, i)).collect(), (0..n).map(|i| i % 1000).collect()),
        "vfunc_mwhc_noshards" => vf!(u64, Box<[u64]>, [u64; 2], Mwhc3NoShards, u64, (0..n).map(|i| mk_key::<u64>(c.seed, i)).collect(), (0..n).map(|i| val(c.seed, i)).collect()),
        "vfunc_noshards_s2" => vf!(u32, BitFieldVec<u32>, [u64; 2], FuseLge3NoShards, usize, (0..n).map(|i| mk_key::<usize>(c.seed, i)).collect(), (0..n).map(|i| (val(c.seed, i) >> 40) as u32).collect()),
        "vfilter_fullsigs" => vfl!(bfv, u64, BitFieldVec<u64>, [u64; 2], FuseLge3FullSigs, 1 + (c.seed % 64) as usize),
        "vfilter_box_u64_s1" => vfl!(boxed, u64, Box<[u64]>, [u64; 1], FuseLge3NoShards, 64),
        "vfilter_box_u8" => vfl!(boxed, u8, Box<[u8]>, [u64; 2], FuseLge3Shards, 8),
        "vfilter_bfv" => vfl!(bfv, usize, BitFieldVec<usize>, [u64; 1], FuseLge3NoShards, 1 + (c.seed % 64) as usize),
        "vfilter_mwhc" => vfl!(boxed, u16, Box<[u16]>, [u64; 2], Mwhc3NoShards, 16),
        other => panic!("unknown family {other}"),
    }
}

trait MkKey {
    fn mk(seed: u64, i: usize) -> Self;
}
impl MkKey for usize {
    fn mk(seed: u64, i: usize) -> Self {
        (i as u64).wrapping_mul(seed | 1).wrapping_add(seed >> 3) as usize
    }
}
impl MkKey for u64 {
    fn mk(seed: u64, i: usize) -> Self {
        (i as u64).wrapping_mul(seed | 1).wrapping_add(seed >> 3)
    }
}
impl MkKey for String {
    fn mk(seed: u64, i: usize) -> Self {
        format!("key-{:x}-{}", seed & 0xfff, i)
    }
}
fn mk_key<K: MkKey>(seed: u64, i: usize) -> K {
    K::mk(seed, i)
}

pub struct SerdeWorld;

impl World for SerdeWorld {
    type Case = SerdeCase;
    const NAME: &'static str = "serde";

    fn generate(_prop: &str, tier: Tier, run: u64, rng: &mut Rng) -> SerdeCase {
        let family = FAMILIES[(run as usize) % FAMILIES.len()].to_string();
        let is_builder = family.starts_with("vf");
        let n = match rng.below(10) {
            0 => 0,
            1 => 1,
            2..=5 => rng.urange(2, 300),
            6..=8 => rng.urange(300, 5000),
            _ => rng.urange(5000, if tier == Tier::Quick { 40_000 } else { 300_000 }),
        };
        // MWHC on tiny key sets never terminates (recorded known finding under C07): keep it away from here
        let n = if family.contains("mwhc") { n.max(12) } else { n };
        let n = if is_builder { n.min(if tier == Tier::Quick { 30_000 } else { 150_000 }) } else { n };
        SerdeCase {
            family,
            seed: rng.next_u64(),
            n,
            max_write: *rng.pick(&[1usize, 3, 7, 64, 1000, 1 << 20, 1 << 20]),
            max_read: *rng.pick(&[1usize, 3, 7, 64, 1000, 1 << 20, 1 << 20]),
            eintr_every: if rng.chance(1, 3) { rng.range(1, 9) } else { 0 },
            fail_write_at: if run % 7 == 6 { Some(rng.range(0, 4000)) } else { None },
            offset16: rng.usize_below(8),
        }
    }

    fn execute(_prop: &str, c: &SerdeCase) -> Outcome {
        let mut out = Outcome::default();
        out.nontrivial = c.n > 0;
        run_family(c, &mut out);
        out.bucket(format!(
            "{}{}|n={}|w{}|r{}|eintr={}|{}",
            c.family,
            if c.family.starts_with("ef") {
                if (c.seed >> 9) % 5 == 0 { "[huge]" } else { "" }
            } else if c.family.starts_with("vf") || c.family.starts_with("rcl") || c.family.starts_with("bfv") {
                ""
            } else {
                match (c.seed >> 17) % 6 {
                    0 => "[popped]",
                    1 => "[resized]",
                    _ => "",
                }
            },
            match c.n {
                0 => "0",
                1 => "1",
                2..=299 => "small",
                300..=4999 => "mid",
                _ => "big",
            },
            if c.max_write < 64 { "short" } else { "full" },
            if c.max_read < 64 { "short" } else { "full" },
            c.eintr_every > 0,
            if c.fail_write_at.is_some() { "hardwrite" } else { "legal" }
        ));
        out
    }

    fn shrink(_prop: &str, c: &SerdeCase) -> Vec<SerdeCase> {
        let mut v = Vec::new();
        let mut push = |x: SerdeCase| {
            if &x != c {
                v.push(x);
            }
        };
        for n in [0usize, 1, 2, c.n / 2, c.n.saturating_sub(1)] {
            if n < c.n && !(c.family.contains("mwhc") && n < 12) {
                let mut x = c.clone();
                x.n = n;
                push(x);
            }
        }
        if c.eintr_every != 0 {
            let mut x = c.clone();
            x.eintr_every = 0;
            push(x);
        }
        if c.max_write != 1 << 20 {
            let mut x = c.clone();
            x.max_write = 1 << 20;
            push(x);
        }
        if c.max_read != 1 << 20 {
            let mut x = c.clone();
            x.max_read = 1 << 20;
            push(x);
        }
        if c.offset16 != 0 {
            let mut x = c.clone();
            x.offset16 = 0;
            push(x);
        }
        v
    }
}
