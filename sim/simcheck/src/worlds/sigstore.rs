//! `sigstore` world (C18): conservation over the signature store, online and offline
//! (offline on the simulated disk: short reads/writes, EINTR, write/read budgets, open and
//! seek failures; a small share in pass-through mode over real files).

use crate::core::model::*;
use crate::core::rng::{splitmix64, Rng};
use crate::core::world::*;
use crate::worlds::builder::DiskCfg;
use epserde::prelude::ZeroCopy;
use serde::{Deserialize, Serialize};
use std::collections::BTreeMap;
use sux::utils::sig_store::*;
use sux::utils::EmptyVal;

#[derive(Clone, Debug, Serialize, Deserialize, PartialEq)]
pub enum Pass {
    /// a complete borrowed iteration
    Full,
    /// a borrowed iteration abandoned after this many shards
    Partial(usize),
}

#[derive(Clone, Debug, Serialize, Deserialize, PartialEq)]
pub struct SigstoreCase {
    /// "s1" | "s2"
    pub s: String,
    /// "u8" | "u64" | "usize" | "empty"
    pub v: String,
    pub offline: bool,
    pub bucket_bits: u32,
    pub max_shard_bits: u32,
    pub shard_bits: u32,
    pub n: usize,
    /// "uniform" | "one_bucket" | "first_shard" | "last_shard" | "dups" | "two_values"
    pub dist: String,
    pub seed: u64,
    pub passes: Vec<Pass>,
    pub disk: Option<DiskCfg>,
}

fn sig0(case: &SigstoreCase, i: u64) -> u64 {
    let mut x = case.seed ^ i.wrapping_mul(0x9E3779B97F4A7C15);
    let r = splitmix64(&mut x);
    match case.dist.as_str() {
        "one_bucket" => (r >> 20) | (case.seed << 44),
        "first_shard" => r >> 12,
        "last_shard" => r | (0xFFFu64 << 52),
        "dups" => {
            let mut y = case.seed ^ (i / 3).wrapping_mul(0x9E3779B97F4A7C15);
            splitmix64(&mut y)
        }
        "two_values" => {
            if i % 2 == 0 {
                0
            } else {
                u64::MAX
            }
        }
        _ => r,
    }
}
fn sig1(case: &SigstoreCase, i: u64) -> u64 {
    let j = if case.dist == "dups" { i / 3 } else { i };
    let mut x = case.seed.rotate_left(31) ^ j.wrapping_mul(0xD1B54A32D192ED03);
    splitmix64(&mut x)
}
fn val(case: &SigstoreCase, i: u64) -> u64 {
    let j = if case.dist == "dups" { i / 3 } else { i };
    let mut x = case.seed.rotate_left(7) ^ j;
    splitmix64(&mut x)
}

type Key = (u64, u64, u64);

struct Drive<'a> {
    case: &'a SigstoreCase,
    out: Outcome,
}

fn hard_fired() -> bool {
    let d = verif_rt::simfs::stats();
    d.enospc + d.eio + d.open_failed + d.seek_failed > 0
}

fn check_shards(
    d: &mut Drive,
    shards: &[Vec<Key>],
    expected: &BTreeMap<Key, usize>,
    sizes: &[usize],
    what: &str,
    partial: Option<usize>,
) {
    let case = d.case;
    let b = case.shard_bits;
    let ctx = format!("sigstore:{}:{}", if case.offline { "offline" } else { "online" }, what);
    let rel = if case.bucket_bits == b {
        "equal"
    } else if case.bucket_bits > b {
        "aggregate"
    } else {
        "split"
    };
    d.out.checks += 1;
    if partial.is_none() && shards.len() != 1usize << b {
        d.out.fail(Violation::new("shard_count", format!("{ctx}:{rel}:shard_count"), format!("{} shards", shards.len()), format!("{}", 1usize << b)));
        return;
    }
    if sizes.len() != 1usize << b {
        d.out.fail(Violation::new("shard_sizes_len", format!("{ctx}:{rel}:shard_sizes_len"), format!("{}", sizes.len()), format!("{}", 1usize << b)));
        return;
    }
    let mut seen: BTreeMap<Key, usize> = BTreeMap::new();
    for (si, sh) in shards.iter().enumerate() {
        d.out.checks += 1;
        if sh.len() != sizes[si] {
            d.out.fail(Violation::new(
                "shard_size",
                format!("{ctx}:{rel}:shard_sizes_mismatch"),
                format!("shard {si} has {} pairs, shard_sizes()[{si}] = {}", sh.len(), sizes[si]),
                "equal",
            ));
            return;
        }
        for k in sh {
            let top = if b == 0 { 0 } else { (k.0 >> (64 - b)) as usize };
            d.out.checks += 1;
            if top != si {
                d.out.fail(Violation::new(
                    "wrong_shard",
                    format!("{ctx}:{rel}:pair_in_wrong_shard"),
                    format!("pair with sig[0]={:#018x} in shard {si}", k.0),
                    format!("shard {top}"),
                ));
                return;
            }
            *seen.entry(*k).or_insert(0) += 1;
        }
    }
    if let Some(p) = partial {
        // an abandoned pass: what was seen must be a sub-multiset and must be exactly the pairs of the first p shards
        for (k, c) in &seen {
            if expected.get(k).copied().unwrap_or(0) < *c {
                d.out.fail(Violation::new("phantom_pair", format!("{ctx}:{rel}:pair_not_pushed"), format!("{k:?} x{c}"), "a pushed pair"));
                return;
            }
        }
        let want: usize = expected.iter().filter(|(k, _)| (if b == 0 { 0 } else { (k.0 >> (64 - b)) as usize }) < p).map(|(_, c)| *c).sum();
        let got: usize = seen.values().sum();
        if got != want {
            d.out.fail(Violation::new("partial_count", format!("{ctx}:{rel}:partial_pass_count"), format!("{got} pairs in the first {p} shards"), format!("{want}")));
        }
        return;
    }
    d.out.checks += 1;
    if &seen != expected {
        let lost = expected.iter().find(|(k, c)| seen.get(*k).copied().unwrap_or(0) < **c);
        let extra = seen.iter().find(|(k, c)| expected.get(*k).copied().unwrap_or(0) < **c);
        d.out.fail(Violation::new(
            "conservation",
            format!("{ctx}:{rel}:{}", if lost.is_some() { "pair_lost" } else { "pair_duplicated" }),
            format!("union of shards has {} pairs; lost example {lost:?}; extra example {extra:?}", seen.values().sum::<usize>()),
            format!("exactly the {} pushed pairs", expected.values().sum::<usize>()),
        ));
    }
}

fn drive<S, V, St>(case: &SigstoreCase, mut store: St, mk_sig: fn(u64, u64) -> S, mk_val: fn(u64) -> V, key_of: fn(&SigVal<S, V>) -> Key, out: Outcome) -> Outcome
where
    S: Sig + ZeroCopy + Send + Sync,
    V: ZeroCopy + Send + Sync,
    St: SigStore<S, V>,
{
    let mut d = Drive { case, out };
    let mut expected: BTreeMap<Key, usize> = BTreeMap::new();
    set_op("try_push");
    for i in 0..case.n as u64 {
        let sv = SigVal { sig: mk_sig(sig0(case, i), sig1(case, i)), val: mk_val(val(case, i)) };
        let k = key_of(&sv);
        d.out.steps += 1;
        match store.try_push(sv) {
            Ok(()) => {
                *expected.entry(k).or_insert(0) += 1;
            }
            Err(e) => {
                if hard_fired() {
                    d.out.bucket("push_err_surfaced");
                    return d.out;
                }
                d.out.fail(Violation::new("push_failed", "sigstore:try_push:err_without_fault", format!("{e}"), "Ok"));
                return d.out;
            }
        }
    }
    d.out.checks += 1;
    if store.len() != case.n {
        d.out.fail(Violation::new("len", "sigstore:len_after_push", format!("{}", store.len()), format!("{}", case.n)));
        return d.out;
    }
    set_op("into_shard_store");
    let mut ss = match store.into_shard_store(case.shard_bits) {
        Ok(s) => s,
        Err(e) => {
            if hard_fired() {
                d.out.bucket("into_shard_store_err_surfaced");
            } else {
                d.out.fail(Violation::new("into_shard_store_failed", "sigstore:into_shard_store:err_without_fault", format!("{e:#}"), "Ok"));
            }
            return d.out;
        }
    };
    d.out.checks += 1;
    if ss.len() != case.n {
        d.out.fail(Violation::new("len", "sigstore:shard_store_len", format!("{}", ss.len()), format!("{}", case.n)));
        return d.out;
    }
    let sizes: Vec<usize> = ss.shard_sizes().to_vec();
    for (pi, p) in case.passes.iter().enumerate() {
        set_op("iter");
        let limit = match p {
            Pass::Full => usize::MAX,
            Pass::Partial(k) => *k,
        };
        let res = std::panic::catch_unwind(std::panic::AssertUnwindSafe(|| {
            let mut shards: Vec<Vec<Key>> = Vec::new();
            let mut it = ss.iter();
            // the iterators are ExactSizeIterators (size_hint = (len, Some(len))): before every next() they must announce
            // exactly the shards left
            let total = 1usize << case.shard_bits;
            let mut bad_hint: Option<String> = None;
            while shards.len() < limit {
                let left = total.saturating_sub(shards.len());
                let h = it.size_hint();
                if bad_hint.is_none() && h != (left, Some(left)) {
                    bad_hint = Some(format!("after {} of {total} shards: size_hint() = {h:?}, expected exactly {left}", shards.len()));
                }
                match it.next() {
                    Some(sh) => shards.push(sh.iter().map(key_of).collect()),
                    None => break,
                }
            }
            (shards, bad_hint)
        }));
        match res {
            Ok((shards, bad_hint)) => {
                d.out.checks += 1;
                if let Some(b) = bad_hint {
                    d.out.fail(Violation::new("iter_len", format!("sigstore:{}:iter:remaining_shards_misreported", if case.offline { "offline" } else { "online" }), b, "the number of shards not yet yielded"));
                    return d.out;
                }
                d.out.steps += shards.len() as u64;
                let partial = match p {
                    Pass::Partial(k) if *k < (1usize << case.shard_bits) => Some((*k).min(shards.len())),
                    _ => None,
                };
                check_shards(&mut d, &shards, &expected, &sizes, &format!("iter#{}", pi.min(1)), partial);
                if d.out.violation.is_some() {
                    return d.out;
                }
            }
            Err(p) => {
                let msg = panic_msg(&*p);
                if hard_fired() {
                    d.out.bucket("iter_panic_on_disk_fault");
                    return d.out;
                }
                d.out.fail(Violation::new("iter_panic", format!("sigstore:iter:panic:{}", normalise_msg(&msg)), msg, "shards"));
                return d.out;
            }
        }
    }
    set_op("into_iter");
    let res = std::panic::catch_unwind(std::panic::AssertUnwindSafe(move || ss.into_iter().map(|sh| sh.iter().map(key_of).collect::<Vec<Key>>()).collect::<Vec<_>>()));
    match res {
        Ok(shards) => {
            d.out.steps += shards.len() as u64;
            check_shards(&mut d, &shards, &expected, &sizes, "into_iter", None);
        }
        Err(p) => {
            let msg = panic_msg(&*p);
            if hard_fired() {
                d.out.bucket("into_iter_panic_on_disk_fault");
            } else {
                d.out.fail(Violation::new("iter_panic", format!("sigstore:into_iter:panic:{}", normalise_msg(&msg)), msg, "shards"));
            }
        }
    }
    d.out
}

macro_rules! dispatch_v {
    ($case:expr, $out:expr, $s:ty, $mk_sig:expr, $sigkey:expr) => {{
        let case: &SigstoreCase = $case;
        match case.v.as_str() {
            "u8" => go::<$s, u8>(case, $mk_sig, |x| x as u8, |sv| { let (a, b) = $sigkey(&sv.sig); (a, b, sv.val as u64) }, $out),
            "u64" => go::<$s, u64>(case, $mk_sig, |x| x, |sv| { let (a, b) = $sigkey(&sv.sig); (a, b, sv.val) }, $out),
            "usize" => go::<$s, usize>(case, $mk_sig, |x| x as usize, |sv| { let (a, b) = $sigkey(&sv.sig); (a, b, sv.val as u64) }, $out),
            // a value type with 16-byte alignment: the stored pair is padded beyond the sum of its fields
            "u128" => go::<$s, u128>(case, $mk_sig, |x| ((x as u128) << 64) | (x as u128 ^ 0x5a5a), |sv| { let (a, b) = $sigkey(&sv.sig); (a, b, (sv.val >> 64) as u64 ^ ((sv.val as u64) ^ 0x5a5a).rotate_left(7)) }, $out),
            _ => go::<$s, EmptyVal>(case, $mk_sig, |_| EmptyVal::default(), |sv| { let (a, b) = $sigkey(&sv.sig); (a, b, 0) }, $out),
        }
    }};
}

fn go<S, V>(case: &SigstoreCase, mk_sig: fn(u64, u64) -> S, mk_val: fn(u64) -> V, key_of: fn(&SigVal<S, V>) -> Key, mut out: Outcome) -> Outcome
where
    S: Sig + ZeroCopy + Send + Sync,
    V: ZeroCopy + Send + Sync,
    SigStoreImpl<S, V, std::io::BufWriter<verif_rt::simfs::File>>: SigStore<S, V>,
    SigStoreImpl<S, V, Vec<SigVal<S, V>>>: SigStore<S, V>,
{
    if case.offline {
        set_op("new_offline");
        match new_offline::<S, V>(case.bucket_bits, case.max_shard_bits, None) {
            Ok(st) => drive(case, st, mk_sig, mk_val, key_of, out),
            Err(e) => {
                if hard_fired() {
                    out.bucket("new_offline_err_surfaced");
                } else {
                    out.fail(Violation::new("new_failed", "sigstore:new_offline:err_without_fault", format!("{e:#}"), "Ok"));
                }
                out
            }
        }
    } else {
        set_op("new_online");
        match new_online::<S, V>(case.bucket_bits, case.max_shard_bits, if case.seed % 2 == 0 { Some(case.n) } else { None }) {
            Ok(st) => drive(case, st, mk_sig, mk_val, key_of, out),
            Err(e) => {
                out.fail(Violation::new("new_failed", "sigstore:new_online:err", format!("{e:#}"), "Ok"));
                out
            }
        }
    }
}

pub struct SigstoreWorld;

impl World for SigstoreWorld {
    type Case = SigstoreCase;
    const NAME: &'static str = "sigstore";

    fn generate(_prop: &str, tier: Tier, run: u64, rng: &mut Rng) -> SigstoreCase {
        let max_shard_bits = rng.urange(0, 10) as u32;
        let shard_bits = match rng.below(3) {
            0 => max_shard_bits,
            1 => 0,
            _ => rng.urange(0, max_shard_bits as usize) as u32,
        };
        let bucket_bits = match rng.below(4) {
            0 => shard_bits.min(7),
            _ => rng.urange(0, 7) as u32,
        };
        let offline = rng.chance(1, 2);
        let n = match rng.below(10) {
            0 => 0,
            1 => 1,
            2..=5 => rng.urange(2, 200),
            6..=8 => rng.urange(200, 3000),
            _ => rng.urange(3000, if tier == Tier::Quick { 12_000 } else { 60_000 }),
        };
        let mut c = SigstoreCase {
            s: rng.pick(&["s1", "s2"]).to_string(),
            v: rng.pick(&["u8", "u64", "usize", "empty", "u128"]).to_string(),
            offline,
            bucket_bits,
            max_shard_bits,
            shard_bits,
            n,
            dist: rng.pick(&["uniform", "uniform", "uniform", "one_bucket", "first_shard", "last_shard", "dups", "two_values"]).to_string(),
            seed: rng.next_u64(),
            passes: vec![],
            disk: None,
        };
        if rng.chance(1, if tier == Tier::Quick { 60 } else { 40 }) {
            // one bucket of the on-disk store holding an exact multiple of what fits a 1 MiB (or 64 KiB) read block:
            // buffered readers and block-wise splitting meet their boundaries
            let size = match (c.s.as_str(), c.v.as_str()) {
                ("s1", "empty") => 8,
                ("s2", "u8") | ("s2", "u64") | ("s2", "usize") => 24,
                (_, "u128") => 32,
                _ => 16,
            };
            let block = *rng.pick(&[1usize << 20, 1 << 20, 1 << 16]);
            c.n = (block / size) * rng.urange(1, 2) + *rng.pick(&[0usize, 0, 0, 1]);
            c.offline = true;
            c.bucket_bits = 0;
            c.max_shard_bits = c.max_shard_bits.max(2);
            c.shard_bits = rng.urange(1, c.max_shard_bits as usize) as u32;
            c.dist = "uniform".into();
        }
        for _ in 0..rng.urange(0, 3) {
            if rng.chance(1, 3) {
                c.passes.push(Pass::Partial(rng.urange(0, 1 << shard_bits)));
            } else {
                c.passes.push(Pass::Full);
            }
        }
        if offline {
            let faulty = run % 4 == 3;
            let mut d = DiskCfg {
                passthrough: rng.chance(1, 12),
                short_write_max: if rng.chance(1, 2) { Some(*rng.pick(&[1usize, 3, 7, 24, 100, 4096])) } else { None },
                short_read_max: if rng.chance(1, 2) { Some(*rng.pick(&[1usize, 3, 7, 24, 100, 4096])) } else { None },
                eintr_every: if rng.chance(1, 3) { Some(rng.range(2, 9)) } else { None },
                write_budget: None,
                read_budget: None,
                open_fail_at: None,
                seek_fail_at: None,
            };
            if faulty {
                let bytes = (n as u64) * 24;
                match rng.below(4) {
                    0 => d.write_budget = Some(rng.range(0, bytes.max(1))),
                    1 => d.read_budget = Some(rng.range(0, bytes.max(1) * 2)),
                    2 => d.open_fail_at = Some(rng.range(0, (1u64 << bucket_bits) - 1)),
                    _ => d.seek_fail_at = Some(rng.range(0, 3 * (1u64 << bucket_bits))),
                }
            }
            c.disk = Some(d);
        }
        c
    }

    fn execute(_prop: &str, case: &SigstoreCase) -> Outcome {
        let mut out = Outcome::default();
        out.nontrivial = case.n > 0;
        verif_rt::simfs::install(case.disk.as_ref().map(|d| d.to_plan()).unwrap_or_default());
        let out = if case.s == "s1" {
            dispatch_v!(case, out, [u64; 1], |a, _b| [a], |s: &[u64; 1]| (s[0], 0u64))
        } else {
            dispatch_v!(case, out, [u64; 2], |a, b| [a, b], |s: &[u64; 2]| (s[0], s[1]))
        };
        let d = verif_rt::simfs::uninstall();
        let mut out = out;
        out.fault_n("io.short.write", d.short_writes);
        out.fault_n("io.short.read", d.short_reads);
        out.fault_n("io.eintr", d.eintr);
        out.fault_n("disk.enospc", d.enospc);
        out.fault_n("disk.eio", d.eio);
        out.fault_n("disk.open", d.open_failed);
        out.fault_n("disk.seek", d.seek_failed);
        if case.disk.as_ref().map(|x| x.passthrough).unwrap_or(false) {
            out.fault_n("disk.passthrough_real_files", 1);
        }
        out.probe("disk.bytes_written", d.bytes_written);
        let rel = if case.bucket_bits == case.shard_bits {
            "equal"
        } else if case.bucket_bits > case.shard_bits {
            "aggregate"
        } else {
            "split"
        };
        let hard = case.disk.as_ref().map(|x| x.has_hard()).unwrap_or(false);
        out.bucket(format!(
            "{}|{}|{}|{}|{}|n={}|passes={}|{}",
            case.s,
            case.v,
            if case.offline { "offline" } else { "online" },
            rel,
            case.dist,
            match case.n {
                0 => "0",
                1..=199 => "small",
                200..=2999 => "mid",
                _ => "big",
            },
            case.passes.len(),
            if hard { "hardfault" } else { "legal" }
        ));
        out
    }

    fn shrink(_prop: &str, case: &SigstoreCase) -> Vec<SigstoreCase> {
        let mut v = Vec::new();
        let mut push = |c: SigstoreCase| {
            if &c != case {
                v.push(c);
            }
        };
        for n in [0usize, 1, 2, case.n / 2, case.n.saturating_sub(1)] {
            if n < case.n {
                let mut c = case.clone();
                c.n = n;
                push(c);
            }
        }
        for i in 0..case.passes.len() {
            let mut c = case.clone();
            c.passes.remove(i);
            push(c);
        }
        if case.offline {
            if let Some(d) = &case.disk {
                if !d.has_hard() {
                    let mut c = case.clone();
                    c.disk = None;
                    push(c);
                    let mut c = case.clone();
                    c.offline = false;
                    c.disk = None;
                    push(c);
                }
            } else {
                let mut c = case.clone();
                c.offline = false;
                push(c);
            }
        }
        if case.max_shard_bits > case.shard_bits {
            let mut c = case.clone();
            c.max_shard_bits = case.shard_bits;
            push(c);
        }
        if case.shard_bits > 0 {
            let mut c = case.clone();
            c.shard_bits -= 1;
            push(c);
        }
        if case.bucket_bits > 0 {
            let mut c = case.clone();
            c.bucket_bits -= 1;
            push(c);
        }
        if case.dist != "uniform" {
            let mut c = case.clone();
            c.dist = "uniform".into();
            push(c);
        }
        if case.v != "u64" {
            let mut c = case.clone();
            c.v = "u64".into();
            push(c);
        }
        v
    }
}
