pub mod atomics;
pub mod bits;
pub mod builder;
pub mod lenders;
pub mod ranksel;
pub mod serde;
pub mod sigstore;

/// Dispatch a generic function over the world named `$name`.
#[macro_export]
macro_rules! with_world {
    ($name:expr, $f:ident ( $($arg:expr),* )) => {
        match $name {
            "atomics" => $f::<$crate::worlds::atomics::AtomicsWorld>($($arg),*),
            "lenders" => $f::<$crate::worlds::lenders::LendersWorld>($($arg),*),
            "sigstore" => $f::<$crate::worlds::sigstore::SigstoreWorld>($($arg),*),
            "bits" => $f::<$crate::worlds::bits::BitsWorld>($($arg),*),
            "ranksel" => $f::<$crate::worlds::ranksel::RankselWorld>($($arg),*),
            "serde" => $f::<$crate::worlds::serde::SerdeWorld>($($arg),*),
            "builder" => $f::<$crate::worlds::builder::BuilderWorld>($($arg),*),
            other => panic!("unknown world {other}"),
        }
    };
}
