//! `lenders` world (C20): every rewindable lender of the crate over a simulated
//! `Read + Seek` source whose every `read`/`seek` is decided by the case's fault plan.

use crate::core::model::*;
use crate::core::rng::Rng;
use crate::core::world::*;
use lender::*;
use serde::{Deserialize, Serialize};
use std::io::{self, BufReader, Read, Seek, SeekFrom, Write};
use std::sync::atomic::{AtomicU64, Ordering};
use std::sync::Arc;
use sux::utils::lenders::*;

#[derive(Clone, Debug, Serialize, Deserialize, PartialEq)]
pub struct IoPlan {
    /// a read delivers at most this many bytes
    pub max_read: usize,
    /// every k-th read call returns Interrupted first (0 = never)
    pub eintr_every: u64,
    /// up to this many Interrupted in a row
    pub eintr_burst: u64,
    /// hard error once the cursor reaches this byte (None = never)
    pub fail_at_byte: Option<u64>,
    /// the j-th seek (0-based) fails
    pub fail_seek: Option<u64>,
    /// kind of the injected hard error: 0 Other, 1 UnexpectedEof, 2 InvalidData, 3 BrokenPipe, 4 TimedOut, 5 ConnectionReset
    #[serde(default)]
    pub fail_kind: u8,
    /// compressed sources only: the source simply ends at this byte (a truncated file): the decoder must
    /// report an error, never a clean end of input
    #[serde(default)]
    pub truncate_at: Option<u64>,
}

fn err_kind(k: u8) -> io::ErrorKind {
    match k {
        1 => io::ErrorKind::UnexpectedEof,
        2 => io::ErrorKind::InvalidData,
        3 => io::ErrorKind::BrokenPipe,
        4 => io::ErrorKind::TimedOut,
        5 => io::ErrorKind::ConnectionReset,
        _ => io::ErrorKind::Other,
    }
}

#[derive(Debug, Default)]
pub struct IoStats {
    pub reads: AtomicU64,
    pub short_reads: AtomicU64,
    pub eintr: AtomicU64,
    pub hard: AtomicU64,
    pub seeks: AtomicU64,
    pub seek_failed: AtomicU64,
    pub healed: AtomicU64,
}

pub struct SimSource {
    data: Arc<Vec<u8>>,
    pos: u64,
    plan: IoPlan,
    calls: u64,
    burst_left: u64,
    stats: Arc<IoStats>,
}

impl SimSource {
    pub fn new(data: Arc<Vec<u8>>, plan: IoPlan, stats: Arc<IoStats>) -> Self {
        SimSource { data, pos: 0, plan, calls: 0, burst_left: 0, stats }
    }
    fn healed(&self) -> bool {
        self.stats.healed.load(Ordering::Relaxed) != 0
    }
}

impl Read for SimSource {
    fn read(&mut self, buf: &mut [u8]) -> io::Result<usize> {
        if buf.is_empty() {
            return Ok(0);
        }
        self.stats.reads.fetch_add(1, Ordering::Relaxed);
        self.calls += 1;
        if self.burst_left > 0 {
            self.burst_left -= 1;
            self.calls -= 1; // bursts do not advance the call counter
            self.stats.eintr.fetch_add(1, Ordering::Relaxed);
            return Err(io::Error::new(io::ErrorKind::Interrupted, "sim: EINTR"));
        }
        // an interruption (or a burst of them) after every `eintr_every` calls that made progress
        if self.plan.eintr_every > 0 && self.calls % (self.plan.eintr_every + 1) == 0 {
            self.burst_left = self.plan.eintr_burst.saturating_sub(1);
            self.stats.eintr.fetch_add(1, Ordering::Relaxed);
            return Err(io::Error::new(io::ErrorKind::Interrupted, "sim: EINTR"));
        }
        let mut len = self.data.len() as u64;
        if !self.healed() {
            if let Some(t) = self.plan.truncate_at {
                if t < len {
                    len = t;
                    if self.pos >= len {
                        self.stats.hard.fetch_add(1, Ordering::Relaxed);
                    }
                }
            }
        }
        let mut n = (buf.len() as u64).min(len.saturating_sub(self.pos));
        if !self.healed() {
            if let Some(k) = self.plan.fail_at_byte {
                if self.pos >= k {
                    self.stats.hard.fetch_add(1, Ordering::Relaxed);
                    return Err(io::Error::new(err_kind(self.plan.fail_kind), "sim: input/output error (injected)"));
                }
                n = n.min(k - self.pos);
            }
        }
        if n > self.plan.max_read.max(1) as u64 {
            n = self.plan.max_read.max(1) as u64;
            self.stats.short_reads.fetch_add(1, Ordering::Relaxed);
        }
        let p = self.pos as usize;
        buf[..n as usize].copy_from_slice(&self.data[p..p + n as usize]);
        self.pos += n;
        Ok(n as usize)
    }
}

impl Seek for SimSource {
    fn seek(&mut self, from: SeekFrom) -> io::Result<u64> {
        let k = self.stats.seeks.fetch_add(1, Ordering::Relaxed);
        if !self.healed() && self.plan.fail_seek == Some(k) {
            self.stats.seek_failed.fetch_add(1, Ordering::Relaxed);
            return Err(io::Error::other("sim: seek failed (injected)"));
        }
        let new = match from {
            SeekFrom::Start(o) => o as i128,
            SeekFrom::End(o) => self.data.len() as i128 + o as i128,
            SeekFrom::Current(o) => self.pos as i128 + o as i128,
        };
        if new < 0 {
            return Err(io::Error::new(io::ErrorKind::InvalidInput, "negative seek"));
        }
        self.pos = new as u64;
        Ok(self.pos)
    }
}

#[derive(Clone, Debug, Serialize, Deserialize, PartialEq)]
pub enum LOp {
    /// call next() up to this many times
    Next(usize),
    /// consume until None
    Drain,
    Rewind,
    /// switch the hard faults off (the source heals)
    Heal,
}

#[derive(Clone, Debug, Serialize, Deserialize, PartialEq)]
pub struct LendersCase {
    /// "line" | "zstd" | "gzip" | "vec" | "range"
    pub kind: String,
    /// wrap in lender::Take(n)
    pub take: Option<usize>,
    /// text description: generator parameters (the bytes are a pure function of these)
    pub text_seed: u64,
    pub nlines: usize,
    pub max_line: usize,
    /// "lf" | "crlf" | "mixed"
    pub eol: String,
    pub final_newline: bool,
    /// number of very long lines (100 KB) mixed in
    pub long_lines: usize,
    pub bufcap: usize,
    pub plan: IoPlan,
    pub ops: Vec<LOp>,
}

/// The raw text of a case.
pub fn text_of(c: &LendersCase) -> Vec<u8> {
    let mut rng = Rng::new(c.text_seed);
    let mut out = Vec::new();
    let alphabet: Vec<char> = "abcdefghijklmnopqrstuvwxyzABC0123456789 \t-_/.:é€ß\r".chars().collect();
    let long_at: Vec<usize> = (0..c.long_lines).map(|_| rng.usize_below(c.nlines.max(1))).collect();
    if c.text_seed % 13 == 5 {
        // a UTF-8 byte-order mark: ordinary content of the first line, on every pass
        out.extend_from_slice(&[0xEF, 0xBB, 0xBF]);
    }
    for i in 0..c.nlines {
        let len = if long_at.contains(&i) { 100_000 + rng.usize_below(5000) } else { rng.urange(0, c.max_line) };
        let mut s = String::new();
        for _ in 0..len {
            s.push(*rng.pick(&alphabet));
        }
        out.extend_from_slice(s.as_bytes());
        let last = i + 1 == c.nlines;
        if !last || c.final_newline {
            let crlf = match c.eol.as_str() {
                "crlf" => true,
                "mixed" => rng.chance(1, 2),
                _ => false,
            };
            if crlf {
                out.push(b'\r');
            }
            out.push(b'\n');
        }
    }
    out
}

/// A zstd stream of one frame, or (one input in five) of two or three concatenated frames cut at arbitrary bytes,
/// the first of which may be empty: what `pzstd` or `cat a.zst b.zst` produce.
pub fn zstd_frames(text: &[u8], seed: u64, level: i32) -> Vec<u8> {
    if seed % 5 != 3 || text.is_empty() {
        return zstd::encode_all(text, level).expect("zstd encode");
    }
    let a = (seed >> 8) as usize % (text.len() + 1);
    let b = a + (seed >> 24) as usize % (text.len() - a + 1);
    let mut out = Vec::new();
    let first: &[u8] = if (seed >> 5) % 3 == 0 { &[] } else { &text[..a] };
    let a = first.len();
    out.extend(zstd::encode_all(first, level).expect("zstd encode"));
    out.extend(zstd::encode_all(&text[a..b.max(a)], level).expect("zstd encode"));
    out.extend(zstd::encode_all(&text[b.max(a)..], level).expect("zstd encode"));
    out
}

/// Byte offsets at which a frame of [`zstd_frames`] ends (the end of the stream excluded).
pub fn zstd_frame_ends(text: &[u8], seed: u64, level: i32) -> Vec<u64> {
    if seed % 5 != 3 || text.is_empty() {
        return vec![];
    }
    let a = (seed >> 8) as usize % (text.len() + 1);
    let b = a + (seed >> 24) as usize % (text.len() - a + 1);
    let first: &[u8] = if (seed >> 5) % 3 == 0 { &[] } else { &text[..a] };
    let a = first.len();
    let l1 = zstd::encode_all(first, level).expect("zstd encode").len() as u64;
    let l2 = zstd::encode_all(&text[a..b.max(a)], level).expect("zstd encode").len() as u64;
    vec![l1, l1 + l2]
}

/// The model: split on LF, strip one CR only before a LF, keep an unterminated last line.
pub fn model_lines(text: &[u8]) -> Vec<String> {
    let mut v = Vec::new();
    let mut start = 0;
    for (i, &b) in text.iter().enumerate() {
        if b == b'\n' {
            let mut end = i;
            if end > start && text[end - 1] == b'\r' {
                end -= 1;
            }
            v.push(String::from_utf8(text[start..end].to_vec()).unwrap());
            start = i + 1;
        }
    }
    if start < text.len() {
        v.push(String::from_utf8(text[start..].to_vec()).unwrap());
    }
    v
}

struct Hist {
    out: Outcome,
    /// position in the current pass
    pos: usize,
    pass: usize,
    errored: bool,
    rewinds: usize,
    /// items ever delivered (all passes) and the Take budget left when the current pass started
    total_yielded: usize,
    take_left_at_pass_start: Option<usize>,
    /// exact model of lender::Take's internal counter (decremented by every next() while positive)
    take_ctr: Option<usize>,
}

fn sig(c: &LendersCase, what: &str) -> String {
    format!("lenders:{}{}:{}", c.kind, if c.take.is_some() { "+take" } else { "" }, what)
}

/// Drive one lender through the history. `$l` is consumed/rebound on rewind.
macro_rules! drive {
    ($case:expr, $lender:expr, $model:expr, $stats:expr, $h:expr, $item_to_string:expr) => {{
        let case: &LendersCase = $case;
        let mut l = $lender;
        let model: &Vec<String> = $model;
        let h: &mut Hist = $h;
        let limit = case.take.map(|n| n.min(model.len())).unwrap_or(model.len());
        let hard_possible = case.plan.fail_at_byte.is_some() || case.plan.truncate_at.is_some();
        let mut ops = case.ops.clone();
        // every history ends with: heal, rewind, full pass
        ops.push(LOp::Heal);
        ops.push(LOp::Rewind);
        ops.push(LOp::Drain);
        'ops: for op in ops {
            match op {
                LOp::Heal => {
                    $stats.healed.store(1, Ordering::Relaxed);
                }
                LOp::Rewind => {
                    set_op("rewind");
                    h.out.steps += 1;
                    match l.rewind() {
                        Ok(nl) => {
                            l = nl;
                            h.pos = 0;
                            h.pass += 1;
                            h.errored = false;
                            h.rewinds += 1;
                            // what lender::Take would have left if it only remembered the remaining count
                            h.take_left_at_pass_start = h.take_ctr;
                        }
                        Err(e) => {
                            let healed = $stats.healed.load(Ordering::Relaxed) != 0;
                            let injected = $stats.seek_failed.load(Ordering::Relaxed) > 0 || $stats.hard.load(Ordering::Relaxed) > 0;
                            if healed || !injected {
                                h.out.fail(Violation::new(
                                    "rewind_failed",
                                    sig(case, "rewind_returned_err_without_fault"),
                                    format!("rewind() = Err({e}) (pass {}, {} items consumed)", h.pass, h.pos),
                                    "Ok(lender)",
                                ));
                            } else {
                                h.out.bucket(format!("{}|rewind_err_surfaced", case.kind));
                            }
                            break 'ops;
                        }
                    }
                }
                LOp::Next(_) | LOp::Drain => {
                    if h.errored {
                        continue;
                    }
                    let want = if let LOp::Next(j) = op { j } else { usize::MAX };
                    set_op("next");
                    let mut k = 0;
                    while k < want {
                        k += 1;
                        h.out.steps += 1;
                        if let Some(c) = h.take_ctr.as_mut() {
                            *c = c.saturating_sub(1);
                        }
                        match l.next() {
                            None => {
                                h.out.checks += 1;
                                if h.pos != limit {
                                    let take_remaining = h.pass > 0 && h.take_left_at_pass_start.map(|r| r.min(model.len()) == h.pos).unwrap_or(false);
                                    h.out.fail(Violation::new(
                                        "short_pass",
                                        if take_remaining {
                                            "lenders:take:rewind_restarts_with_remaining_count".to_string()
                                        } else {
                                            sig(case, if h.pass == 0 { "first_pass_ends_early" } else { "pass_after_rewind_ends_early" })
                                        },
                                        format!("pass {} ended with None after {} items ({} rewinds so far)", h.pass, h.pos, h.rewinds),
                                        format!("{limit} items"),
                                    ));
                                    break 'ops;
                                }
                                break;
                            }
                            Some(Err(e)) => {
                                let healed = $stats.healed.load(Ordering::Relaxed) != 0;
                                if hard_possible && !healed && $stats.hard.load(Ordering::Relaxed) > 0 {
                                    h.errored = true;
                                    h.out.bucket(format!("{}|hard_error_surfaced", case.kind));
                                    break;
                                }
                                h.out.fail(Violation::new(
                                    "unexpected_item_error",
                                    sig(case, if h.pass == 0 { "first_pass_yields_err" } else { "pass_after_rewind_yields_err" }),
                                    format!("item {} of pass {} = Err({e})", h.pos, h.pass),
                                    format!("{:?}", model.get(h.pos)),
                                ));
                                break 'ops;
                            }
                            Some(Ok(item)) => {
                                let got: String = $item_to_string(item);
                                h.out.checks += 1;
                                if h.pos >= limit {
                                    h.out.fail(Violation::new(
                                        "extra_item",
                                        sig(case, "more_items_than_input"),
                                        format!("item {} of pass {} = {:?}", h.pos, h.pass, clip(&got)),
                                        format!("None after {limit} items"),
                                    ));
                                    break 'ops;
                                }
                                if got != model[h.pos] {
                                    h.out.fail(Violation::new(
                                        "wrong_item",
                                        sig(case, if h.pass == 0 { "first_pass_item_differs" } else { "pass_after_rewind_item_differs" }),
                                        format!("item {} of pass {} = {:?}", h.pos, h.pass, clip(&got)),
                                        format!("{:?}", clip(&model[h.pos])),
                                    ));
                                    break 'ops;
                                }
                                h.pos += 1;
                                h.total_yielded += 1;
                            }
                        }
                    }
                }
            }
        }
    }};
}

fn clip(s: &str) -> String {
    if s.len() > 60 {
        let mut e = 60;
        while !s.is_char_boundary(e) {
            e -= 1;
        }
        format!("{}…({} bytes)", &s[..e], s.len())
    } else {
        s.to_string()
    }
}

fn run_case(case: &LendersCase) -> Outcome {
    let text = text_of(case);
    let model = model_lines(&text);
    let stats = Arc::new(IoStats::default());
    let mut h = Hist { out: Outcome::default(), pos: 0, pass: 0, errored: false, rewinds: 0, total_yielded: 0, take_left_at_pass_start: case.take, take_ctr: case.take };
    h.out.nontrivial = !model.is_empty() && !case.ops.is_empty();
    let s2s = |x: &str| x.to_string();
    match case.kind.as_str() {
        "line" => {
            let src = SimSource::new(Arc::new(text.clone()), case.plan.clone(), stats.clone());
            let l = LineLender::new(BufReader::with_capacity(case.bufcap.max(1), src));
            match case.take {
                Some(n) => drive!(case, l.take(n), &model, stats, &mut h, s2s),
                None => drive!(case, l, &model, stats, &mut h, s2s),
            }
        }
        "zstd" => {
            let comp = zstd_frames(&text, case.text_seed, 3);
            let mut plan = case.plan.clone();
            plan.truncate_at = plan.truncate_at.map(|t| 1 + t % (comp.len() as u64 - 1).max(1));
            // a stream of several frames cut exactly between two frames is a valid, shorter stream (no decoder can
            // tell): such a cut is moved one byte into the next frame, where it must be reported as an error
            let bounds = zstd_frame_ends(&text, case.text_seed, 3);
            plan.truncate_at = plan.truncate_at.map(|t| if bounds.contains(&t) && t + 1 < comp.len() as u64 { t + 1 } else { t });
            let src = SimSource::new(Arc::new(comp), plan, stats.clone());
            set_op("ZstdLineLender::new");
            match ZstdLineLender::new(src) {
                Ok(l) => match case.take {
                    Some(n) => drive!(case, l.take(n), &model, stats, &mut h, s2s),
                    None => drive!(case, l, &model, stats, &mut h, s2s),
                },
                Err(e) => {
                    if stats.hard.load(Ordering::Relaxed) == 0 {
                        h.out.fail(Violation::new("ctor_failed", sig(case, "new_failed_without_fault"), format!("{e}"), "Ok"));
                    }
                }
            }
        }
        "gzip" => {
            let mut enc = flate2::write::GzEncoder::new(Vec::new(), flate2::Compression::default());
            enc.write_all(&text).unwrap();
            let comp = enc.finish().unwrap();
            let mut plan = case.plan.clone();
            plan.truncate_at = plan.truncate_at.map(|t| 1 + t % (comp.len() as u64 - 1).max(1));
            let src = SimSource::new(Arc::new(comp), plan, stats.clone());
            set_op("GzipLineLender::new");
            match GzipLineLender::new(src) {
                Ok(l) => match case.take {
                    Some(n) => drive!(case, l.take(n), &model, stats, &mut h, s2s),
                    None => drive!(case, l, &model, stats, &mut h, s2s),
                },
                Err(e) => {
                    if stats.hard.load(Ordering::Relaxed) == 0 {
                        h.out.fail(Violation::new("ctor_failed", sig(case, "new_failed_without_fault"), format!("{e}"), "Ok"));
                    }
                }
            }
        }
        "line_file" | "zstd_file" | "gzip_file" => {
            // the convenience constructors over a real file (no fault injection possible here: the
            // history is the only simulated dimension)
            let dir = tempfile::tempdir().expect("tempdir");
            let path = dir.path().join("input");
            let bytes = match case.kind.as_str() {
                "zstd_file" => zstd_frames(&text, case.text_seed, 1),
                "gzip_file" => {
                    let mut enc = flate2::write::GzEncoder::new(Vec::new(), flate2::Compression::fast());
                    enc.write_all(&text).unwrap();
                    enc.finish().unwrap()
                }
                _ => text.clone(),
            };
            std::fs::write(&path, bytes).expect("write input file");
            set_op("from_path");
            match case.kind.as_str() {
                "line_file" => match (LineLender::from_path(&path), case.take) {
                    (Ok(l), Some(n)) => drive!(case, l.take(n), &model, stats, &mut h, s2s),
                    (Ok(l), None) => drive!(case, l, &model, stats, &mut h, s2s),
                    (Err(e), _) => h.out.fail(Violation::new("ctor_failed", sig(case, "from_path_failed"), format!("{e}"), "Ok")),
                },
                "zstd_file" => match (ZstdLineLender::from_path(&path), case.take) {
                    (Ok(l), Some(n)) => drive!(case, l.take(n), &model, stats, &mut h, s2s),
                    (Ok(l), None) => drive!(case, l, &model, stats, &mut h, s2s),
                    (Err(e), _) => h.out.fail(Violation::new("ctor_failed", sig(case, "from_path_failed"), format!("{e}"), "Ok")),
                },
                _ => match (GzipLineLender::from_path(&path), case.take) {
                    (Ok(l), Some(n)) => drive!(case, l.take(n), &model, stats, &mut h, s2s),
                    (Ok(l), None) => drive!(case, l, &model, stats, &mut h, s2s),
                    (Err(e), _) => h.out.fail(Violation::new("ctor_failed", sig(case, "from_path_failed"), format!("{e}"), "Ok")),
                },
            }
            h.out.fault_n("restart.real_file", 1);
        }
        "vec" => {
            let items: Vec<String> = model.clone();
            let l = FromIntoIterator::from(items);
            let s2s2 = |x: &String| x.clone();
            match case.take {
                Some(n) => drive!(case, l.take(n), &model, stats, &mut h, s2s2),
                None => drive!(case, l, &model, stats, &mut h, s2s2),
            }
        }
        _ => {
            // a range of integers; the model is their decimal rendering
            let n = case.nlines;
            let model: Vec<String> = (0..n).map(|i| i.to_string()).collect();
            h.out.nontrivial = n > 0 && !case.ops.is_empty();
            let l = FromIntoIterator::from(0..n);
            let i2s = |x: &usize| x.to_string();
            match case.take {
                Some(t) => drive!(case, l.take(t), &model, stats, &mut h, i2s),
                None => drive!(case, l, &model, stats, &mut h, i2s),
            }
        }
    }
    let g = |a: &AtomicU64| a.load(Ordering::Relaxed);
    h.out.fault_n("io.short", g(&stats.short_reads));
    h.out.fault_n("io.eintr", g(&stats.eintr));
    h.out.fault_n("io.err", g(&stats.hard));
    h.out.fault_n("io.seek", g(&stats.seek_failed));
    h.out.probe("rewinds", h.rewinds as u64);
    h.out.probe("source.reads", g(&stats.reads));
    let shape = {
        let partial = case.ops.iter().any(|o| matches!(o, LOp::Next(_)));
        let rew = case.ops.iter().filter(|o| matches!(o, LOp::Rewind)).count();
        format!("rew{}{}", rew.min(3), if partial { "+partial" } else { "" })
    };
    let fk = if case.plan.truncate_at.is_some() {
        "truncated"
    } else if case.plan.fail_at_byte.is_some() {
        "hard"
    } else if case.plan.fail_seek.is_some() {
        "seek"
    } else if case.plan.eintr_every > 0 {
        "eintr"
    } else if case.plan.max_read < 4096 {
        "short"
    } else {
        "none"
    };
    let bc = match case.bufcap {
        0..=3 => "1-3",
        4..=63 => "4-63",
        64..=4095 => "64-4095",
        _ => "4096+",
    };
    let tk = match case.take {
        None => "notake",
        Some(n) if n < model_len(case) => "take<",
        Some(n) if n == model_len(case) => "take=",
        _ => "take>",
    };
    let b = format!("{}|{}|buf={}|{}|{}|lines={}|{}|fnl={}", case.kind, tk, bc, fk, shape, size_class(case.nlines), case.eol, case.final_newline);
    h.out.bucket(b);
    h.out
}

fn model_len(case: &LendersCase) -> usize {
    if case.kind == "range" {
        case.nlines
    } else {
        model_lines(&text_of(case)).len()
    }
}

fn size_class(n: usize) -> &'static str {
    match n {
        0 => "0",
        1 => "1",
        2..=9 => "2-9",
        10..=99 => "10-99",
        _ => "100+",
    }
}

pub struct LendersWorld;

impl World for LendersWorld {
    type Case = LendersCase;
    const NAME: &'static str = "lenders";

    fn generate(_prop: &str, tier: Tier, run: u64, rng: &mut Rng) -> LendersCase {
        let kind = if run % 97 == 13 {
            *rng.pick(&["line_file", "zstd_file", "gzip_file"])
        } else {
            *rng.pick(&["line", "line", "line", "zstd", "zstd", "gzip", "gzip", "vec", "range"])
        };
        // one in three runs is a fault-free configuration (legal behaviours only)
        let legal_only = run % 3 != 2;
        let big = rng.chance(1, if tier == Tier::Quick { 60 } else { 25 });
        let nlines = if big {
            rng.urange(2000, 6000)
        } else {
            match rng.below(10) {
                0 => 0,
                1 => 1,
                2..=6 => rng.urange(2, 12),
                _ => rng.urange(12, 120),
            }
        };
        let max_line = if big { 60 } else { *rng.pick(&[0usize, 1, 5, 20, 20, 80, 300]) };
        let long_lines = if rng.chance(1, 40) { rng.urange(1, 2) } else { 0 };
        let mut plan = IoPlan {
            max_read: *rng.pick(&[1usize, 2, 3, 7, 64, 1000, 1 << 20, 1 << 20]),
            eintr_every: if rng.chance(1, 3) { rng.range(2, 9) } else { 0 },
            eintr_burst: rng.range(1, 3),
            fail_at_byte: None,
            fail_seek: None,
            fail_kind: rng.below(6) as u8,
            truncate_at: None,
        };
        if big || long_lines > 0 {
            plan.max_read = plan.max_read.max(64);
        }
        // flate2's gzip header parser and zstd's frame reader are validated separately for EINTR (see DESIGN 8)
        let mut c = LendersCase {
            kind: kind.into(),
            take: None,
            text_seed: rng.next_u64(),
            nlines,
            max_line,
            eol: rng.pick(&["lf", "lf", "crlf", "mixed"]).to_string(),
            final_newline: rng.chance(2, 3),
            long_lines,
            bufcap: *rng.pick(&[1usize, 2, 3, 7, 64, 8192, 8192]),
            plan,
            ops: vec![],
        };
        if big || long_lines > 0 {
            c.bufcap = c.bufcap.max(64);
        }
        let total = if kind == "range" { nlines } else { model_lines(&text_of(&c)).len() };
        if rng.chance(1, 3) {
            c.take = Some(match rng.below(4) {
                0 => total,
                1 => total + rng.urange(1, 5),
                2 => 0,
                _ => rng.urange(0, total),
            });
        }
        if !legal_only && kind != "vec" && kind != "range" && !kind.ends_with("_file") {
            let bytes = text_of(&c).len() as u64;
            match rng.below(6) {
                0..=2 => c.plan.fail_at_byte = Some(rng.range(0, bytes.max(1))),
                3 if kind == "zstd" || kind == "gzip" => {
                    // a truncated compressed file (positions relative to the compressed size are drawn at execution)
                    c.plan.truncate_at = Some(rng.range(1, 1 << 20));
                }
                _ => c.plan.fail_seek = Some(rng.range(0, 3)),
            }
        }
        // history
        let nrew = rng.urange(1, 5);
        let lim = c.take.map(|t| t.min(total)).unwrap_or(total);
        for _ in 0..nrew {
            match rng.below(6) {
                0 => {}
                1 => c.ops.push(LOp::Next(1)),
                2 => c.ops.push(LOp::Drain),
                3 => c.ops.push(LOp::Next(lim)),
                4 => {
                    c.ops.push(LOp::Next(rng.urange(0, lim + 1)));
                }
                _ => {
                    c.ops.push(LOp::Next(rng.urange(0, lim / 2 + 1)));
                    c.ops.push(LOp::Next(rng.urange(0, 3)));
                }
            }
            if !legal_only && rng.chance(1, 4) {
                c.ops.push(LOp::Heal);
            }
            c.ops.push(LOp::Rewind);
        }
        c
    }

    fn execute(_prop: &str, case: &LendersCase) -> Outcome {
        run_case(case)
    }

    fn shrink(_prop: &str, case: &LendersCase) -> Vec<LendersCase> {
        let mut v = Vec::new();
        let mut push = |c: LendersCase| {
            if &c != case {
                v.push(c);
            }
        };
        for i in 0..case.ops.len() {
            let mut c = case.clone();
            c.ops.remove(i);
            push(c);
        }
        for i in 0..case.ops.len() {
            if let LOp::Next(j) = case.ops[i] {
                if j > 1 {
                    let mut c = case.clone();
                    c.ops[i] = LOp::Next(j / 2);
                    push(c);
                    let mut c = case.clone();
                    c.ops[i] = LOp::Next(1);
                    push(c);
                }
            }
        }
        for n in [0usize, 1, 2, case.nlines / 2, case.nlines.saturating_sub(1)] {
            if n < case.nlines {
                let mut c = case.clone();
                c.nlines = n;
                c.long_lines = c.long_lines.min(n);
                push(c);
            }
        }
        if case.long_lines > 0 {
            let mut c = case.clone();
            c.long_lines = 0;
            push(c);
        }
        if case.max_line > 3 {
            let mut c = case.clone();
            c.max_line = 3;
            push(c);
        }
        if let Some(t) = case.take {
            let mut c = case.clone();
            c.take = None;
            push(c);
            if t > 0 {
                let mut c = case.clone();
                c.take = Some(t / 2);
                push(c);
            }
        }
        if case.eol != "lf" {
            let mut c = case.clone();
            c.eol = "lf".into();
            push(c);
        }
        if case.plan.eintr_every > 0 {
            let mut c = case.clone();
            c.plan.eintr_every = 0;
            push(c);
        }
        if case.plan.max_read < (1 << 20) {
            let mut c = case.clone();
            c.plan.max_read = 1 << 20;
            push(c);
        }
        if case.plan.fail_at_byte.is_some() {
            let mut c = case.clone();
            c.plan.fail_at_byte = None;
            push(c);
        }
        if case.plan.fail_kind != 0 {
            let mut c = case.clone();
            c.plan.fail_kind = 0;
            push(c);
        }
        if case.plan.fail_seek.is_some() {
            let mut c = case.clone();
            c.plan.fail_seek = None;
            push(c);
        }
        if case.bufcap != 8192 {
            let mut c = case.clone();
            c.bufcap = 8192;
            push(c);
        }
        v
    }
}
