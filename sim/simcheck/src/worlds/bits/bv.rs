//! BitVec / AtomicBitVec interpreter.

use crate::core::world::*;
use crate::worlds::bits::*;
use std::sync::atomic::Ordering;
use sux::bits::*;
use sux::traits::rank_sel::*;

const WB: usize = 64;

enum Obj {
    Grow(BitVec<Vec<usize>>),
    Raw { st: Vec<usize>, len: usize },
}

struct St<'a, 'b> {
    ctx: &'a mut Ctx<'b>,
    bits: Vec<bool>,
    /// expected storage for Raw objects
    mst: Vec<usize>,
    step: usize,
    raw: bool,
}

fn sig(op: &str, what: &str) -> String {
    format!("bits:bv:{op}:{what}")
}

fn clean_words(bits: &[bool]) -> Vec<usize> {
    let mut w = vec![0usize; bits.len().div_ceil(WB)];
    for (i, &b) in bits.iter().enumerate() {
        if b {
            w[i / WB] |= 1 << (i % WB);
        }
    }
    w
}

fn put_all(words: &mut [usize], bits: &[bool]) {
    for (i, &b) in bits.iter().enumerate() {
        if b {
            words[i / WB] |= 1 << (i % WB);
        } else {
            words[i / WB] &= !(1 << (i % WB));
        }
    }
}

// One monomorphic copy of the observer per backend type, written in the method-call syntax a
// user writes: an inherent method added to one concrete `BitVec<...>` type shadows the trait
// method there and only there, and a single generic observer would never resolve to it.
macro_rules! observe_fn {
    ($name:ident, $ty:ty) => {
        fn $name(v: &$ty, st: &mut St, op: &str) {
    if st.ctx.failed() {
        return;
    }
    let n = st.bits.len();
    st.ctx.out.checks += 1;
    if v.len() != n {
        st.ctx.fail("len", sig(op, "len"), format!("len() = {} after step {}", v.len(), st.step), format!("{n}"));
        return;
    }
    let ones: Vec<usize> = (0..n).filter(|&i| st.bits[i]).collect();
    set_op("bv:count_ones");
    let c1 = v.count_ones();
    st.ctx.out.checks += 2;
    if c1 != ones.len() {
        st.ctx.fail("count_ones", sig("count_ones", "value"), format!("count_ones() = {c1} after step {} ({op}), len {n}", st.step), format!("{}", ones.len()));
        return;
    }
    let c0 = v.count_zeros();
    if c0 != n - ones.len() {
        st.ctx.fail("count_zeros", sig("count_zeros", "value"), format!("{c0}"), format!("{}", n - ones.len()));
        return;
    }
    if n > 20_000 {
        // sampled observation on big vectors
        let stride = n / 4096;
        let mut i = 0;
        while i < n {
            st.ctx.out.checks += 1;
            if v.get(i) != st.bits[i] {
                st.ctx.fail("get", sig(op, "get"), format!("get({i}) = {} after step {} ({op})", v.get(i), st.step), format!("{}", st.bits[i]));
                return;
            }
            i += stride;
        }
        return;
    }
    set_op("bv:get");
    for i in 0..n {
        st.ctx.out.checks += 2;
        if v.get(i) != st.bits[i] {
            st.ctx.fail("get", sig(op, "get"), format!("get({i}) = {} after step {} ({op}), len {n}", v.get(i), st.step), format!("{}", st.bits[i]));
            return;
        }
        if v[i] != st.bits[i] {
            st.ctx.fail("index", sig(op, "index"), format!("v[{i}] = {}", v[i]), format!("{}", st.bits[i]));
            return;
        }
    }
    set_op("bv:iter");
    let it: Vec<bool> = v.iter().collect();
    st.ctx.out.checks += 3;
    if it != st.bits {
        st.ctx.fail("iter", sig("iter", "items"), format!("iter() yields {} items, first difference at {:?}", it.len(), it.iter().zip(&st.bits).position(|(a, b)| a != b)), format!("{n} bits of the model"));
        return;
    }
    let it2: Vec<bool> = (&*v).into_iter().collect();
    if it2 != st.bits {
        st.ctx.fail("iter", sig("into_iter", "items"), format!("{} items", it2.len()), format!("{n}"));
        return;
    }
    set_op("bv:iter_protocol");
    st.ctx.out.checks += 8;
    let salt = st.step * 13 + n;
    let r = iter_protocol(|| v.iter(), &st.bits, salt, false)
        .map(|e| format!("iter(): {e}"))
        .or_else(|| iter_protocol(|| v.iter_ones(), &ones, salt + 1, false).map(|e| format!("iter_ones(): {e}")))
        .or_else(|| {
            let zeros: Vec<usize> = (0..n).filter(|&i| !st.bits[i]).collect();
            iter_protocol(|| v.iter_zeros(), &zeros, salt + 2, false).map(|e| format!("iter_zeros(): {e}"))
        });
    if let Some(e) = r {
        st.ctx.fail("iter_protocol", sig("iter", "iterator_protocol"), format!("{e} (len {n}, step {} {op})", st.step), "what the same calls give on a slice");
        return;
    }
    set_op("bv:iter_ones");
    let io: Vec<usize> = v.iter_ones().collect();
    if io != ones {
        st.ctx.fail(
            "iter_ones",
            sig("iter_ones", "positions"),
            format!("{} positions; first difference at index {:?}; last {:?} (len {n}, step {} {op})", io.len(), io.iter().zip(&ones).position(|(a, b)| a != b), io.last(), st.step),
            format!("{} positions, last {:?}", ones.len(), ones.last()),
        );
        return;
    }
    set_op("bv:iter_zeros");
    let zeros: Vec<usize> = (0..n).filter(|&i| !st.bits[i]).collect();
    let iz: Vec<usize> = v.iter_zeros().collect();
    st.ctx.out.checks += 1;
    if iz != zeros {
        st.ctx.fail(
            "iter_zeros",
            sig("iter_zeros", "positions"),
            format!("{} positions; first difference at index {:?}; last {:?} (len {n}, step {} {op})", iz.len(), iz.iter().zip(&zeros).position(|(a, b)| a != b), iz.last(), st.step),
            format!("{} positions, last {:?}", zeros.len(), zeros.last()),
        );
        return;
    }
    // equality against clean twins and to_owned
    set_op("bv:eq");
    let tw = clean_words(&st.bits);
    let twin: BitVec<&[usize]> = unsafe { BitVec::from_raw_parts(&tw[..], n) };
    st.ctx.out.checks += 3;
    if !(*v == twin) {
        st.ctx.fail("eq", sig("eq", "equal_contents_compare_unequal"), "v == clean twin is false", "true");
        return;
    }
    if n > 0 {
        let mut other = st.bits.clone();
        let j = (st.step * 7 + 3) % n;
        other[j] = !other[j];
        let tw2 = clean_words(&other);
        let twin2: BitVec<&[usize]> = unsafe { BitVec::from_raw_parts(&tw2[..], n) };
        if *v == twin2 {
            st.ctx.fail("eq", sig("eq", "different_contents_compare_equal"), format!("v == twin differing at bit {j}"), "false");
            return;
        }
    }
    set_op("bv:to_owned");
    let o = v.to_owned();
    if !(o == twin) || o.len() != n {
        st.ctx.fail("to_owned", sig("to_owned", "differs"), "to_owned() != clean twin", "equal");
        return;
    }
    // hinted rank/select from the origin (readers that scan words)
    if st.raw && n > 0 {
        set_op("bv:rank_hinted");
        let p = (st.step * 13) % n;
        let want = ones.iter().filter(|&&x| x < p).count();
        let got = unsafe { RankHinted::<64>::rank_hinted(v, p, 0, 0) };
        st.ctx.out.checks += 1;
        if got != want {
            st.ctx.fail("rank_hinted", sig("rank_hinted", "value"), format!("rank_hinted({p},0,0) = {got}"), format!("{want}"));
            return;
        }
        if !ones.is_empty() {
            set_op("bv:select_hinted");
            let r = (st.step * 11) % ones.len();
            let got = unsafe { v.select_hinted(r, 0, 0) };
            st.ctx.out.checks += 1;
            if got != ones[r] {
                st.ctx.fail("select_hinted", sig("select_hinted", "value"), format!("select_hinted({r},0,0) = {got}"), format!("{}", ones[r]));
                return;
            }
        }
        if !zeros.is_empty() {
            set_op("bv:select_zero_hinted");
            let r = (st.step * 11) % zeros.len();
            let got = unsafe { v.select_zero_hinted(r, 0, 0) };
            st.ctx.out.checks += 1;
            if got != zeros[r] {
                st.ctx.fail("select_zero_hinted", sig("select_zero_hinted", "value"), format!("select_zero_hinted({r},0,0) = {got}"), format!("{}", zeros[r]));
            }
        }
    }
}
    };
}
observe_fn!(observe_vec, BitVec<Vec<usize>>);
observe_fn!(observe_box, BitVec<Box<[usize]>>);
observe_fn!(observe_ref, BitVec<&[usize]>);


fn check_storage(st: &mut St, actual: &[usize], op: &str) {
    if st.ctx.failed() {
        return;
    }
    st.ctx.out.checks += 1;
    if actual != &st.mst[..] {
        let wi = actual.iter().zip(&st.mst).position(|(a, b)| a != b).unwrap_or(0);
        let bit = wi * WB + (actual[wi] ^ st.mst[wi]).trailing_zeros() as usize;
        let inside = bit < st.bits.len();
        st.ctx.fail(
            if inside { "storage" } else { "slack_modified" },
            sig(op, if inside { "storage_bit_wrong" } else { "slack_modified" }),
            format!("after step {} ({op}) storage word {wi} = {:#x}, first differing bit {bit} ({} the {} logical bits)", st.step, actual[wi], if inside { "inside" } else { "beyond" }, st.bits.len()),
            format!("{:#x}", st.mst[wi]),
        );
    }
}

/// Mutations available on any backend. Returns true if the contents changed.
macro_rules! common_fn {
    ($name:ident, $ty:ty) => {
        fn $name(v: &mut $ty, st: &mut St, op: &Op) -> bool {
    let n = st.bits.len();
    match op {
        Op::Set(i, b) if *i < n => {
            set_op("bv:set");
            v.set(*i, *b != 0);
            st.bits[*i] = *b != 0;
            true
        }
        Op::Fill(b) => {
            set_op("bv:fill");
            v.fill(*b);
            st.bits.iter_mut().for_each(|x| *x = *b);
            true
        }
        Op::ParFill(b) => {
            set_op("bv:par_fill");
            v.par_fill(*b);
            st.bits.iter_mut().for_each(|x| *x = *b);
            true
        }
        Op::Flip => {
            set_op("bv:flip");
            v.flip();
            st.bits.iter_mut().for_each(|x| *x = !*x);
            true
        }
        Op::ParFlip => {
            set_op("bv:par_flip");
            v.par_flip();
            st.bits.iter_mut().for_each(|x| *x = !*x);
            true
        }
        Op::Reset => {
            set_op("bv:reset");
            v.reset();
            st.bits.iter_mut().for_each(|x| *x = false);
            true
        }
        Op::ParReset => {
            set_op("bv:par_reset");
            v.par_reset();
            st.bits.iter_mut().for_each(|x| *x = false);
            true
        }
        Op::ParCount => {
            set_op("bv:par_count_ones");
            let got = v.par_count_ones();
            let want = st.bits.iter().filter(|&&b| b).count();
            st.ctx.out.checks += 1;
            if got != want {
                st.ctx.fail("par_count_ones", sig("par_count_ones", "value"), format!("{got} (len {n})"), format!("{want}"));
            }
            false
        }
        Op::Reject { kind, k } => {
            set_op("bv:reject");
            let (label, r) = match kind {
                0 => ("get_out_of_range", expect_panic(|| v.get(n + *k)).map_err(|x| format!("returned {x}"))),
                1 => ("set_out_of_range", expect_panic(|| v.set(n + *k, true)).map_err(|_| "returned".to_string())),
                7 => ("index_out_of_range", expect_panic(|| v[n + *k]).map_err(|x| format!("v[{}] returned {x} (len {n})", n + *k))),
                _ => return false,
            };
            st.ctx.out.checks += 1;
            st.ctx.out.fault(&format!("reject.{label}"));
            if let Err(o) = r {
                st.ctx.fail("not_rejected", sig("reject", label), o, "an unwinding panic");
            }
            false
        }
        _ => false,
    }
}
    };
}
common_fn!(common_vec, BitVec<Vec<usize>>);
common_fn!(common_mut, BitVec<&mut [usize]>);


fn atomic_session(v: BitVec<Vec<usize>>, st: &mut St, aops: &[AOp]) -> BitVec<Vec<usize>> {
    set_op("bv:into_atomic");
    let mut a: AtomicBitVec = v.into();
    for aop in aops {
        if st.ctx.failed() {
            break;
        }
        let n = st.bits.len();
        match aop {
            AOp::Get(i) if *i < n => {
                set_op("abv:get");
                let got = a.get(*i, Ordering::Relaxed);
                st.ctx.out.checks += 1;
                if got != st.bits[*i] {
                    st.ctx.fail("atomic_get", sig("atomic_get", "value"), format!("get({i}) = {got}"), format!("{}", st.bits[*i]));
                }
            }
            AOp::Set(i, b) if *i < n => {
                set_op("abv:set");
                a.set(*i, *b != 0, Ordering::Relaxed);
                st.bits[*i] = *b != 0;
            }
            AOp::Swap(i, b) if *i < n => {
                set_op("abv:swap");
                let old = a.swap(*i, *b, Ordering::Relaxed);
                st.ctx.out.checks += 1;
                if old != st.bits[*i] {
                    st.ctx.fail("atomic_swap", sig("atomic_swap", "returned_value"), format!("swap({i},{b}) returned {old}"), format!("{}", st.bits[*i]));
                }
                st.bits[*i] = *b;
            }
            AOp::Fill(b) => {
                set_op("abv:fill");
                a.fill(*b, Ordering::Relaxed);
                st.bits.iter_mut().for_each(|x| *x = *b);
            }
            AOp::Flip => {
                set_op("abv:flip");
                a.flip(Ordering::Relaxed);
                st.bits.iter_mut().for_each(|x| *x = !*x);
            }
            AOp::Reset => {
                set_op("abv:reset");
                a.reset(Ordering::Relaxed);
                st.bits.iter_mut().for_each(|x| *x = false);
            }
            AOp::Count => {
                set_op("abv:count_ones");
                let got = a.count_ones();
                let want = st.bits.iter().filter(|&&b| b).count();
                st.ctx.out.checks += 2;
                if got != want {
                    st.ctx.fail("atomic_count", sig("atomic_count_ones", "value"), format!("{got}"), format!("{want}"));
                }
                let gp = a.par_count_ones();
                if gp != want && !st.ctx.failed() {
                    st.ctx.fail("atomic_count", sig("atomic_par_count_ones", "value"), format!("{gp}"), format!("{want}"));
                }
            }
            _ => {}
        }
        if n <= 4096 && !st.ctx.failed() {
            for i in 0..n {
                st.ctx.out.checks += 1;
                if a.get(i, Ordering::Relaxed) != st.bits[i] || a[i] != st.bits[i] {
                    st.ctx.fail("atomic_get", sig("atomic_get", "value_after_atomic_op"), format!("after {aop:?}: bit {i} = {}", a.get(i, Ordering::Relaxed)), format!("{}", st.bits[i]));
                    break;
                }
            }
            let it: Vec<bool> = a.iter().collect();
            if it != st.bits && !st.ctx.failed() {
                st.ctx.fail("atomic_iter", sig("atomic_iter", "items"), format!("{} items", it.len()), format!("{n}"));
            }
        }
    }
    set_op("bv:from_atomic");
    a.into()
}

fn atomic_reject(v: BitVec<Vec<usize>>, st: &mut St, k: usize) -> BitVec<Vec<usize>> {
    let a: AtomicBitVec = v.into();
    let n = st.bits.len();
    set_op("abv:reject");
    let r1 = expect_panic(|| a.get(n + k, Ordering::Relaxed));
    let r2 = expect_panic(|| a.set(n + k, true, Ordering::Relaxed));
    let r3 = expect_panic(|| a.swap(n + k, true, Ordering::Relaxed));
    st.ctx.out.fault("reject.atomic_out_of_range");
    st.ctx.out.checks += 3;
    if r1.is_err() || r2.is_err() || r3.is_err() {
        st.ctx.fail("not_rejected", sig("reject", "atomic_out_of_range"), "get/set/swap past the end returned", "an unwinding panic");
    }
    a.into()
}

/// More than 2^32 ones: every counting operation against the known totals, before and after fill and flip.
fn giant(extra: usize, ctx: &mut Ctx) {
    let len = (1usize << 32) + extra;
    set_op("bv:giant:with_value");
    let mut v: BitVec = BitVec::with_value(len, true);
    let mut expect = |ctx: &mut Ctx, what: &str, got: usize, want: usize| {
        ctx.out.checks += 1;
        if got != want && !ctx.failed() {
            ctx.fail("giant_count", format!("bits:bv:giant:{what}"), format!("{what} = {got} on {len} bits"), format!("{want}"));
        }
    };
    for round in 0..3 {
        let ones = if round == 1 { 0 } else { len };
        set_op("bv:giant:count_ones");
        expect(ctx, "count_ones", v.count_ones(), ones);
        expect(ctx, "count_zeros", v.count_zeros(), len - ones);
        set_op("bv:giant:par_count_ones");
        expect(ctx, "par_count_ones", v.par_count_ones(), ones);
        set_op("bv:giant:atomic_count_ones");
        let a: AtomicBitVec = v.into();
        expect(ctx, "atomic_count_ones", a.count_ones(), ones);
        expect(ctx, "atomic_par_count_ones", a.par_count_ones(), ones);
        v = a.into();
        ctx.out.checks += 2;
        if len > 0 && (v.get(len - 1) != (ones > 0) || v.get(1 << 32) != (ones > 0)) && !ctx.failed() {
            ctx.fail("giant_get", "bits:bv:giant:get".to_string(), "a bit beyond 2^32 reads the wrong value".to_string(), format!("{}", ones > 0));
        }
        match round {
            0 => {
                set_op("bv:giant:fill");
                v.fill(false);
            }
            1 => {
                set_op("bv:giant:par_flip");
                v.par_flip();
            }
            _ => {}
        }
    }
    ctx.out.probe("giant_vectors_beyond_2^32_ones", 1);
    ctx.out.bucket("bv|giant".to_string());
}

pub fn run(case: &BitsCase, ctx: &mut Ctx) {
    if let Init::Giant { extra } = &case.init {
        giant(*extra, ctx);
        return;
    }
    let mut st = St { ctx, bits: vec![], mst: vec![], step: 0, raw: false };
    set_op("bv:init");
    let mut obj = match &case.init {
        Init::New { len } | Init::NewUnaligned { len } => {
            st.bits = vec![false; *len];
            Obj::Grow(BitVec::new(*len))
        }
        Init::WithValue { len, val } => {
            st.bits = vec![*val; *len];
            Obj::Grow(BitVec::with_value(*len, *val))
        }
        Init::WithCapacity { cap } => Obj::Grow(BitVec::with_capacity(*cap)),
        Init::Macro { form, n, v } => match form {
            0 => Obj::Grow(sux::bit_vec![]),
            1 => {
                st.bits = vec![false; *n];
                Obj::Grow(sux::bit_vec![false; *n])
            }
            2 => {
                st.bits = vec![true; *n];
                Obj::Grow(sux::bit_vec![true; *n])
            }
            _ => {
                let b = *v != 0;
                st.bits = vec![b, false, true, b];
                Obj::Grow(sux::bit_vec![b as usize, 0, 1, b as usize])
            }
        },
        Init::FromIter { len, seed } | Init::FromSlice { len, seed } => {
            st.bits = (0..*len as u64).map(|i| value_at(*seed, i, 1) & 1 != 0).collect();
            Obj::Grow(st.bits.iter().copied().collect())
        }
        Init::Giant { .. } => unreachable!("handled above"),
        Init::Raw { len, extra, garbage, pattern, contents } => {
            let nw = len.div_ceil(WB) + *extra;
            let mut w: Vec<usize> = (0..nw).map(|i| garbage_word(*garbage, i as u64, *pattern) as usize).collect();
            // runs of equal bits as well as random ones
            st.bits = (0..*len as u64)
                .map(|i| match contents % 4 {
                    0 => true,
                    1 => false,
                    _ => value_at(*contents, i, 1) & 1 != 0,
                })
                .collect();
            put_all(&mut w, &st.bits);
            st.mst = w.clone();
            st.raw = true;
            st.ctx.out.fault("slack.tail");
            if *extra > 0 {
                st.ctx.out.fault("slack.words");
            }
            Obj::Raw { st: w, len: *len }
        }
    };
    match &obj {
        Obj::Grow(v) => observe_vec(v, &mut st, "init"),
        Obj::Raw { st: w, len } => {
            let v: BitVec<&[usize]> = unsafe { BitVec::from_raw_parts(&w[..], *len) };
            observe_ref(&v, &mut st, "init");
        }
    }
    for (si, op) in case.ops.iter().enumerate() {
        if st.ctx.failed() {
            break;
        }
        st.step = si + 1;
        st.ctx.out.steps += 1;
        let opname = format!("{op:?}");
        let opname = opname.split(|c: char| !c.is_alphanumeric()).next().unwrap_or("").to_string();
        match &mut obj {
            Obj::Grow(v) => {
                match op {
                    Op::Push(b) => {
                        set_op("bv:push");
                        v.push(*b != 0);
                        st.bits.push(*b != 0);
                    }
                    Op::Pop => {
                        set_op("bv:pop");
                        let got = v.pop();
                        let want = st.bits.pop();
                        st.ctx.out.checks += 1;
                        if got != want {
                            st.ctx.fail("pop", sig("pop", "value"), format!("{got:?}"), format!("{want:?}"));
                        }
                    }
                    Op::Resize(m, b) if *m <= 100_000_000 => {
                        set_op("bv:resize");
                        v.resize(*m, *b != 0);
                        st.bits.resize(*m, *b != 0);
                    }
                    Op::Extend(xs) => {
                        set_op("bv:extend");
                        v.extend(xs.iter().map(|&x| x != 0));
                        st.bits.extend(xs.iter().map(|&x| x != 0));
                    }
                    Op::BoxRoundtrip => {
                        set_op("bv:box_roundtrip");
                        let taken = std::mem::replace(v, BitVec::new(0));
                        let b: BitVec<Box<[usize]>> = taken.into();
                        observe_box(&b, &mut st, "into_box");
                        *v = b.into();
                    }
                    Op::Atomic(aops) => {
                        let taken = std::mem::replace(v, BitVec::new(0));
                        *v = atomic_session(taken, &mut st, aops);
                    }
                    Op::Reject { kind: 6, k } => {
                        let taken = std::mem::replace(v, BitVec::new(0));
                        *v = atomic_reject(taken, &mut st, *k);
                    }
                    _ => {
                        common_vec(v, &mut st, op);
                    }
                }
                observe_vec(&*v, &mut st, &opname);
            }
            Obj::Raw { st: w, len } => {
                let n = *len;
                match op {
                    Op::Rescramble(seed) => {
                        let mut v: BitVec<&mut [usize]> = unsafe { BitVec::from_raw_parts(&mut w[..], n) };
                        let sl: &mut [usize] = v.as_mut();
                        for b in n..sl.len() * WB {
                            let g = garbage_word(*seed, (b / WB) as u64, 2) as usize;
                            if (g >> (b % WB)) & 1 != 0 {
                                sl[b / WB] |= 1 << (b % WB);
                            } else {
                                sl[b / WB] &= !(1 << (b % WB));
                            }
                        }
                        st.mst = w.clone();
                        st.ctx.out.fault("slack.rescramble");
                    }
                    Op::Atomic(aops) => {
                        let taken = std::mem::take(w);
                        let v: BitVec<Vec<usize>> = unsafe { BitVec::from_raw_parts(taken, n) };
                        let back = atomic_session(v, &mut st, aops);
                        let (raw, _) = back.into_raw_parts();
                        *w = raw;
                        let bits = st.bits.clone();
                        put_all(&mut st.mst, &bits);
                        check_storage(&mut st, w, "atomic_session");
                    }
                    _ => {
                        let modified = {
                            let mut v: BitVec<&mut [usize]> = unsafe { BitVec::from_raw_parts(&mut w[..], n) };
                            common_mut(&mut v, &mut st, op)
                        };
                        if modified {
                            let bits = st.bits.clone();
                            put_all(&mut st.mst, &bits);
                        }
                        check_storage(&mut st, w, &opname);
                    }
                }
                let v: BitVec<&[usize]> = unsafe { BitVec::from_raw_parts(&w[..], n) };
                observe_ref(&v, &mut st, &opname);
            }
        }
    }
    let kinds: std::collections::BTreeSet<String> = case.ops.iter().map(|o| format!("{o:?}").split(|c: char| !c.is_alphanumeric()).next().unwrap_or("").to_string()).collect();
    let init = format!("{:?}", case.init);
    let init = init.split(|c: char| !c.is_alphanumeric()).next().unwrap_or("").to_string();
    let lc = match st.bits.len() % 64 {
        0 => "len%64=0",
        1 => "len%64=1",
        63 => "len%64=63",
        _ => "len%64=mid",
    };
    for k in kinds {
        st.ctx.out.bucket(format!("bv|{init}|{lc}|{k}"));
    }
}
