//! `bits` world: operation histories over BitVec / BitFieldVec (and their atomic forms)
//! next to `Vec<bool>` / `Vec<u128>` models. Serves C05, C06 (histories on growable
//! vectors, rejected calls), C10 (bulk operations) and C14 (simulator-owned storage with
//! garbage beyond the logical contents, re-scrambled between operations).

pub mod bfv;
pub mod bv;

use crate::core::model::*;
use crate::core::rng::Rng;
use crate::core::world::*;
use serde::{Deserialize, Serialize};

#[derive(Clone, Debug, Serialize, Deserialize, PartialEq)]
pub enum Init {
    New { len: usize },
    NewUnaligned { len: usize },
    WithCapacity { cap: usize },
    WithValue { len: usize, val: bool },
    /// macro forms: 0 = empty, 1 = [w; n; v] / [false|true; n], 2 = [w => v; n], 3 = list
    Macro { form: u8, n: usize, v: u128 },
    FromIter { len: usize, seed: u64 },
    FromSlice { len: usize, seed: u64 },
    /// simulator-owned storage: needed + extra words, garbage everywhere outside the contents
    Raw { len: usize, extra: usize, garbage: u64, pattern: u8, contents: u64 },
    /// bit vectors only: 2^32 + extra bits, all ones, no per-bit model: the counting operations (accumulators
    /// and counters must be as wide as usize), fill and flip; the operation list is ignored
    Giant { extra: usize },
}

#[derive(Clone, Debug, Serialize, Deserialize, PartialEq)]
pub enum AOp {
    Get(usize),
    Set(usize, u128),
    Swap(usize, bool),
    Fill(bool),
    Flip,
    Reset,
    ParReset,
    Count,
}

#[derive(Clone, Debug, Serialize, Deserialize, PartialEq)]
pub enum Op {
    Push(u128),
    Pop,
    Set(usize, u128),
    Resize(usize, u128),
    Clear,
    Extend(Vec<u128>),
    Fill(bool),
    Flip,
    Reset,
    ParFill(bool),
    ParFlip,
    ParReset,
    ParCount,
    /// copy(from, dst, to, len) into a destination of `dst_len` distinct values (`dst_extra` spare words)
    Copy { from: usize, to: usize, len: usize, dst_len: usize, dst_seed: u64, dst_extra: usize },
    /// apply_in_place with f = xor with k (masked) [kind 0] or running sum [kind 1]
    Apply { kind: u8, k: u128 },
    /// try_chunks_mut(size), then writes (chunk, index, value)
    Chunks { size: usize, writes: Vec<(usize, usize, u128)> },
    GetUnaligned(usize),
    IterFrom(usize),
    RevIterFrom(usize),
    UncheckedFrom(usize),
    BoxRoundtrip,
    ToOwned,
    /// convert to the atomic form, run these single-threaded atomic operations, convert back
    Atomic(Vec<AOp>),
    /// re-scramble the slack bits of the storage (C14)
    Rescramble(u64),
    /// calls that must be rejected by an unwinding panic leaving the contents unchanged:
    /// 0 get(len+k) 1 set(len+k) 2 set(value too wide) 3 iter_from(len+1+k) 4 push(too wide) 5 resize(too wide) 6 atomic get/set out of range
    /// 7 (bit vectors) the indexing operator v[len+k]
    Reject { kind: u8, k: usize },
}

#[derive(Clone, Debug, Serialize, Deserialize, PartialEq)]
pub struct BitsCase {
    /// "bv" | "bfv"
    pub obj: String,
    /// bfv word type: u8|u16|u32|u64|u128|usize
    pub word: String,
    pub width: usize,
    pub init: Init,
    pub ops: Vec<Op>,
    /// rayon pool width for the par_ operations
    pub pool: usize,
}

pub fn word_bits(w: &str) -> usize {
    match w {
        "u8" => 8,
        "u16" => 16,
        "u32" => 32,
        "u128" => 128,
        _ => 64,
    }
}

pub fn mask128(bits: usize) -> u128 {
    if bits >= 128 {
        u128::MAX
    } else {
        (1u128 << bits) - 1
    }
}

pub fn garbage_word(seed: u64, i: u64, pattern: u8) -> u128 {
    match pattern {
        0 => u128::MAX,
        1 => 0xAAAA_AAAA_AAAA_AAAA_AAAA_AAAA_AAAA_AAAAu128,
        _ => {
            let mut x = seed ^ i.wrapping_mul(0x9E3779B97F4A7C15);
            let a = crate::core::rng::splitmix64(&mut x) as u128;
            let b = crate::core::rng::splitmix64(&mut x) as u128;
            (a << 64) | b
        }
    }
}

pub fn value_at(seed: u64, i: u64, width: usize) -> u128 {
    let mut x = seed ^ i.wrapping_mul(0xD1B54A32D192ED03) ^ 0x1234;
    let a = crate::core::rng::splitmix64(&mut x) as u128;
    let b = crate::core::rng::splitmix64(&mut x) as u128;
    let v = (a << 64) | b;
    // bias to all-ones and top-bit-set values
    match v % 5 {
        0 => mask128(width),
        1 if width > 0 => (1u128 << (width - 1)) | (v >> 3 & mask128(width - 1)),
        _ => v & mask128(width),
    }
}

/// Shared context handed to the interpreters.
pub struct Ctx<'a> {
    pub prop: &'a str,
    pub out: Outcome,
}

impl Ctx<'_> {
    pub fn fail(&mut self, class: &str, sig: impl Into<String>, obs: impl Into<String>, exp: impl Into<String>) {
        self.out.fail(Violation::new(class, sig, obs, exp));
    }
    pub fn failed(&self) -> bool {
        self.out.violation.is_some()
    }
}

// ---------------------------------------------------------------------------------------------
// generation

fn draw_len(rng: &mut Rng, q: usize, max: usize) -> usize {
    rng.size_biased(max, q)
}

fn gen_value(rng: &mut Rng, width: usize) -> u128 {
    let v = rng.next_u128();
    match rng.below(5) {
        0 => mask128(width),
        1 => 0,
        2 if width > 0 => 1u128 << (width - 1),
        _ => v & mask128(width),
    }
}

fn gen_too_wide(rng: &mut Rng, width: usize, wbits: usize) -> Option<u128> {
    if width >= wbits {
        None
    } else {
        let extra = rng.urange(width, wbits - 1);
        Some((1u128 << extra) | (rng.next_u128() & mask128(width)))
    }
}

pub fn generate(prop: &str, tier: Tier, run: u64, rng: &mut Rng) -> BitsCase {
    if run == 11 && matches!(prop, "C06" | "C10") {
        // one vector of more than 2^32 ones per run of the check (about 0.5 GB for a few seconds in one worker)
        return BitsCase { obj: "bv".into(), word: "usize".into(), width: 1, init: Init::Giant { extra: rng.urange(1, 300) }, ops: vec![], pool: *rng.pick(&[2usize, 16]) };
    }
    let is_bv = match prop {
        "C06" => true,
        "C05" => false,
        _ => rng.chance(2, 5),
    };
    let word = if is_bv { "usize" } else { *rng.pick(&["u8", "u16", "u32", "u64", "u64", "u128", "usize", "usize"]) };
    let wb = if is_bv { 64 } else { word_bits(word) };
    let width = if is_bv {
        1
    } else {
        match rng.below(12) {
            0 => 0,
            1 => wb,
            2 => wb - 1,
            3 => 1,
            4 => wb / 2,
            _ => rng.urange(1, wb),
        }
    };
    let q = if width == 0 { 64 } else { (wb / width.max(1)).max(1) };
    let raw = matches!(prop, "C14") || (prop == "C10" && rng.chance(1, 2));
    let big = prop == "C10" && rng.chance(1, if tier == Tier::Quick { 200 } else { 60 });
    let max_len = if big { 7_000_000 / width.max(1) } else { 4 * q.max(16) + 70 };
    let mut len = if big { rng.urange(6_500_000 / width.max(1), max_len) } else { draw_len(rng, q, max_len) };
    if is_bv && !big {
        len = draw_len(rng, 64, 330);
    }
    let init = if raw {
        Init::Raw { len, extra: rng.urange(0, 3), garbage: rng.next_u64(), pattern: rng.below(3) as u8, contents: rng.next_u64() }
    } else if is_bv {
        match rng.below(7) {
            0 => Init::New { len },
            1 => Init::WithValue { len, val: rng.chance(1, 2) },
            2 => Init::WithCapacity { cap: len },
            3 => Init::Macro { form: rng.below(4) as u8, n: len.min(40), v: rng.below(2) as u128 },
            _ => Init::FromIter { len, seed: rng.next_u64() },
        }
    } else {
        match rng.below(8) {
            0 => Init::New { len },
            1 => Init::NewUnaligned { len },
            2 => Init::WithCapacity { cap: len },
            3 if word == "usize" => Init::Macro { form: rng.below(4) as u8, n: len.min(40), v: gen_value(rng, width) },
            4 => Init::FromSlice { len, seed: rng.next_u64() },
            _ => Init::FromSlice { len, seed: rng.next_u64() },
        }
    };
    // FromSlice derives its own width from the values; record that width so the model agrees
    let mut case = BitsCase { obj: if is_bv { "bv".into() } else { "bfv".into() }, word: word.into(), width, init, ops: vec![], pool: *rng.pick(&[1usize, 2, 16]) };
    if let Init::FromSlice { len, seed } = case.init {
        let maxv = (0..len as u64).map(|i| value_at(seed, i, width)).max().unwrap_or(0);
        case.width = (128 - maxv.leading_zeros()) as usize;
    }
    if let Init::Macro { form: 0, .. } = case.init {
        // `bit_field_vec![w]` / `bit_vec![]`
    }
    let width = case.width;
    // model length as the history is generated
    let mut cur = match &case.init {
        Init::New { len } | Init::NewUnaligned { len } | Init::WithValue { len, .. } | Init::FromIter { len, .. } | Init::FromSlice { len, .. } | Init::Raw { len, .. } => *len,
        Init::Giant { .. } => 0,
        Init::WithCapacity { .. } => 0,
        Init::Macro { form, n, .. } => {
            if *form == 0 {
                0
            } else {
                *n
            }
        }
    };
    let nops = if big { rng.urange(1, 4) } else { rng.urange(1, if tier == Tier::Quick { 30 } else { 60 }) };
    let growable = !raw;
    for _ in 0..nops {
        let op = gen_op(prop, rng, is_bv, growable, raw, big, width, wb, &mut cur, q);
        if let Some(op) = op {
            case.ops.push(op);
        }
    }
    // bit vectors, now and then: shrink to a whole number of words (stale spare words stay behind), then a long extend
    // from an exact-size iterator (bulk / word-assembling paths only run on long inputs)
    if is_bv && growable && !big && rng.chance(1, 12) {
        let at = rng.usize_below(case.ops.len() + 1);
        let keep = 64 * rng.urange(0, 3);
        let k = rng.urange(1024, 2600);
        let seed = rng.next_u64();
        case.ops.insert(at, Op::Extend((0..k as u64).map(|i| value_at(seed, i, 1) & 1).collect()));
        case.ops.insert(at, Op::Resize(keep, rng.below(2) as u128));
        if rng.chance(1, 2) {
            // grow first so that the shrink really leaves words behind
            case.ops.insert(at, Op::Resize(keep + rng.urange(65, 400), 1));
        }
    }
    let _ = run;
    case
}

#[allow(clippy::too_many_arguments)]
fn gen_op(prop: &str, rng: &mut Rng, is_bv: bool, growable: bool, raw: bool, big: bool, width: usize, wb: usize, cur: &mut usize, q: usize) -> Option<Op> {
    let len = *cur;
    let idx = |rng: &mut Rng| if len == 0 { 0 } else { match rng.below(6) { 0 => 0, 1 => len - 1, _ => rng.usize_below(len) } };
    let val = |rng: &mut Rng| if is_bv { rng.below(2) as u128 } else { gen_value(rng, width) };
    // op menus per property
    let c = match prop {
        "C05" | "C06" => rng.weighted(&[14, 8, 14, 8, 2, 5, 4, 3, 3, 0, 0, 0, 0, 0, 0, 0, 0, 5, 3, 3, 3, 3, 5, 0, 8]),
        "C10" => rng.weighted(&[2, 1, 4, 1, 0, 0, 5, 5, 5, 6, 6, 6, 6, 14, 10, 8, 8, 0, 0, 0, 0, 0, 2, if raw { 5 } else { 0 }, 0]),
        _ => rng.weighted(&[0, 0, 12, 0, 0, 0, 6, 6, 6, 3, 3, 3, 2, 6, 5, 5, 0, 3, 3, 3, 0, 2, 6, 14, 0]),
    };
    if big {
        return Some(match rng.below(6) {
            0 => Op::ParFill(rng.chance(1, 2)),
            1 => Op::ParFlip,
            2 => Op::ParReset,
            3 => Op::ParCount,
            4 => Op::Set(idx(rng), val(rng)),
            _ => Op::Fill(rng.chance(1, 2)),
        });
    }
    Some(match c {
        0 if growable => {
            *cur += 1;
            Op::Push(val(rng))
        }
        1 if growable => {
            *cur = cur.saturating_sub(1);
            Op::Pop
        }
        2 if len > 0 => Op::Set(idx(rng), val(rng)),
        3 if growable => {
            let n = match rng.below(4) {
                0 => len / 2,
                1 => len + rng.urange(1, 2 * q + 3),
                2 => 0,
                _ => rng.urange(0, len + q + 1),
            };
            *cur = n;
            Op::Resize(n, val(rng))
        }
        4 if growable && !is_bv => {
            *cur = 0;
            Op::Clear
        }
        5 if growable => {
            let k = rng.urange(0, q + 3);
            *cur += k;
            Op::Extend((0..k).map(|_| val(rng)).collect())
        }
        6 if is_bv => Op::Fill(rng.chance(1, 2)),
        7 if is_bv => Op::Flip,
        8 => Op::Reset,
        9 if is_bv => Op::ParFill(rng.chance(1, 2)),
        10 if is_bv => Op::ParFlip,
        11 => Op::ParReset,
        12 if is_bv => Op::ParCount,
        13 if !is_bv => {
            let dst_len = draw_len(rng, q, 3 * q.max(8) + 20);
            Op::Copy {
                from: if len == 0 { 0 } else { rng.usize_below(len + 1).min(len) },
                to: if dst_len == 0 { 0 } else { rng.usize_below(dst_len + 1).min(dst_len) },
                len: match rng.below(4) {
                    0 => *rng.pick(&[usize::MAX / 4, usize::MAX, usize::MAX - 1, usize::MAX / 2 + 1]),
                    1 => 1,
                    _ => rng.urange(0, len + 2),
                },
                dst_len,
                dst_seed: rng.next_u64(),
                dst_extra: rng.urange(0, 2),
            }
        }
        14 if !is_bv => Op::Apply { kind: rng.below(2) as u8, k: rng.next_u128() & mask128(width) },
        15 if !is_bv => {
            let size = match rng.below(5) {
                0 if width > 0 => (wb / gcd(wb, width)).max(1) * rng.urange(1, 3),
                1 => len.max(1),
                2 => len + 1,
                _ => rng.urange(1, len + 2),
            };
            let nch = if size == 0 { 0 } else { len.div_ceil(size) };
            let writes = (0..rng.urange(0, 5)).map(|_| (rng.usize_below(nch.max(1)), rng.usize_below(size.max(1)), val(rng))).collect();
            Op::Chunks { size, writes }
        }
        16 if !is_bv && len > 0 => Op::GetUnaligned(idx(rng)),
        17 if !is_bv => Op::IterFrom(rng.urange(0, len)),
        18 if !is_bv => Op::RevIterFrom(rng.urange(0, len)),
        19 if !is_bv => Op::UncheckedFrom(rng.urange(0, len)),
        20 if growable => Op::BoxRoundtrip,
        21 => Op::ToOwned,
        22 if is_bv || wb != 128 => {
            let mut v = Vec::new();
            for _ in 0..rng.urange(1, 6) {
                v.push(match rng.below(if is_bv { 8 } else { 5 }) {
                    0 | 1 if len > 0 => AOp::Set(idx(rng), val(rng)),
                    2 if len > 0 => AOp::Get(idx(rng)),
                    3 => AOp::Reset,
                    4 if !is_bv => AOp::ParReset,
                    4 if len > 0 => AOp::Swap(idx(rng), rng.chance(1, 2)),
                    5 => AOp::Fill(rng.chance(1, 2)),
                    6 => AOp::Flip,
                    _ => AOp::Count,
                });
            }
            Op::Atomic(v)
        }
        23 if raw => Op::Rescramble(rng.next_u64()),
        24 => {
            let kind = if is_bv { *rng.pick(&[0u8, 1, 6, 7]) } else { rng.below(7) as u8 };
            if !growable && (kind == 4 || kind == 5) {
                return None;
            }
            if (kind == 2 || kind == 4 || kind == 5) && width >= wb {
                return None;
            }
            if kind == 6 && !is_bv && wb == 128 {
                return None;
            }
            Op::Reject { kind, k: rng.urange(0, 3) }
        }
        _ => return None,
    })
}

/// The `Iterator` protocol on an iterator of the crate, beyond a plain `collect`: what `count`, `last`,
/// `nth`, `skip`, `step_by` and `size_hint` report from the start and after a partial consumption must be
/// what the same calls report on the model slice. `mk` makes a fresh iterator; `salt` selects the script.
pub fn iter_protocol<T: PartialEq + Copy + std::fmt::Debug, I: Iterator<Item = T>>(mk: impl Fn() -> I, want: &[T], salt: usize, exact: bool) -> Option<String> {
    let n = want.len();
    let c = mk().count();
    if c != n {
        return Some(format!("count() = {c}, expected {n}"));
    }
    let l = mk().last();
    if l != want.last().copied() {
        return Some(format!("last() = {l:?}, expected {:?}", want.last()));
    }
    let hint = |it: &I, consumed: usize, what: &str| -> Option<String> {
        let rem = n.saturating_sub(consumed);
        let (lo, hi) = it.size_hint();
        if exact && (lo, hi) != (rem, Some(rem)) {
            return Some(format!("size_hint() {what} = ({lo}, {hi:?}), expected ({rem}, Some({rem}))"));
        }
        if lo > rem || hi.map(|h| h < rem).unwrap_or(false) {
            return Some(format!("size_hint() {what} = ({lo}, {hi:?}) excludes the {rem} remaining items"));
        }
        None
    };
    let mut it = mk();
    if let Some(e) = hint(&it, 0, "of a fresh iterator") {
        return Some(e);
    }
    let a = (salt % 4).min(n);
    for (i, w) in want.iter().enumerate().take(a) {
        let g = it.next();
        if g != Some(*w) {
            return Some(format!("item {i} = {g:?}, expected {w:?}"));
        }
    }
    if let Some(e) = hint(&it, a, &format!("after {a} next()")) {
        return Some(e);
    }
    let j = (salt / 4) % 5;
    let g = it.nth(j);
    if g != want.get(a + j).copied() {
        return Some(format!("after {a} next(): nth({j}) = {g:?}, expected {:?}", want.get(a + j)));
    }
    let consumed = (a + j + 1).min(n);
    if g.is_some() {
        if let Some(e) = hint(&it, consumed, &format!("after {a} next() and nth({j})")) {
            return Some(e);
        }
        let rest: Vec<T> = it.collect();
        if rest != want[consumed..] {
            return Some(format!("after {a} next() and nth({j}): {} more items, expected the {} items from {consumed}", rest.len(), n - consumed));
        }
    }
    let sk = salt % 7;
    let got: Vec<T> = mk().skip(sk).collect();
    if got != want[sk.min(n)..] {
        return Some(format!("skip({sk}) yields {} items, expected {}", got.len(), n - sk.min(n)));
    }
    let st = 1 + salt % 3;
    let got: Vec<T> = mk().step_by(st).collect();
    let exp: Vec<T> = want.iter().copied().step_by(st).collect();
    if got != exp {
        return Some(format!("step_by({st}) yields {} items (first difference at {:?}), expected {}", got.len(), got.iter().zip(&exp).position(|(x, y)| x != y), exp.len()));
    }
    if mk().nth(n).is_some() {
        return Some(format!("nth({n}) on {n} items is Some"));
    }
    None
}

fn gcd(a: usize, b: usize) -> usize {
    if b == 0 {
        a
    } else {
        gcd(b, a % b)
    }
}

pub fn too_wide(width: usize, wbits: usize, k: usize) -> Option<u128> {
    if width >= wbits {
        None
    } else {
        Some(1u128 << (width + k % (wbits - width)))
    }
}

pub struct BitsWorld;

impl World for BitsWorld {
    type Case = BitsCase;
    const NAME: &'static str = "bits";

    fn generate(prop: &str, tier: Tier, run: u64, rng: &mut Rng) -> BitsCase {
        let _ = gen_too_wide;
        generate(prop, tier, run, rng)
    }

    fn execute(prop: &str, case: &BitsCase) -> Outcome {
        let mut ctx = Ctx { prop, out: Outcome::default() };
        ctx.out.nontrivial = !case.ops.is_empty();
        let pool = rayon::ThreadPoolBuilder::new().num_threads(case.pool.max(1)).build().expect("rayon pool");
        pool.install(|| {
            if case.obj == "bv" {
                bv::run(case, &mut ctx);
            } else {
                match case.word.as_str() {
                    "u8" => bfv::w_u8::run(case, &mut ctx),
                    "u16" => bfv::w_u16::run(case, &mut ctx),
                    "u32" => bfv::w_u32::run(case, &mut ctx),
                    "u64" => bfv::w_u64::run(case, &mut ctx),
                    "u128" => bfv::w_u128::run(case, &mut ctx),
                    _ => bfv::w_usize::run(case, &mut ctx),
                }
            }
        });
        ctx.out.fault_n(&format!("knob.pool{}", case.pool), 1);
        ctx.out
    }

    fn shrink(_prop: &str, case: &BitsCase) -> Vec<BitsCase> {
        let mut v = Vec::new();
        let mut push = |c: BitsCase| {
            if &c != case {
                v.push(c);
            }
        };
        // ddmin-style: drop halves, then single ops
        let n = case.ops.len();
        if n > 3 {
            let mut c = case.clone();
            c.ops.truncate(n / 2);
            push(c);
            let mut c = case.clone();
            c.ops.drain(..n / 2);
            push(c);
        }
        for i in (0..n).rev() {
            let mut c = case.clone();
            c.ops.remove(i);
            push(c);
        }
        // shrink the initial length
        let mut c = case.clone();
        let shr = |l: &mut usize| {
            if *l > 0 {
                *l /= 2;
                true
            } else {
                false
            }
        };
        let changed = match &mut c.init {
            Init::New { len } | Init::NewUnaligned { len } | Init::WithValue { len, .. } | Init::FromIter { len, .. } | Init::Raw { len, .. } => shr(len),
            Init::WithCapacity { cap } => shr(cap),
            Init::Macro { n, .. } => shr(n),
            Init::FromSlice { .. } | Init::Giant { .. } => false,
        };
        if changed {
            push(c);
        }
        let mut c = case.clone();
        let dec = |l: &mut usize| {
            if *l > 0 {
                *l -= 1;
                true
            } else {
                false
            }
        };
        let changed = match &mut c.init {
            Init::New { len } | Init::NewUnaligned { len } | Init::WithValue { len, .. } | Init::FromIter { len, .. } | Init::Raw { len, .. } => dec(len),
            _ => false,
        };
        if changed {
            push(c);
        }
        if let Init::Raw { len, extra, garbage, pattern, contents } = case.init {
            if extra > 0 {
                let mut c = case.clone();
                c.init = Init::Raw { len, extra: 0, garbage, pattern, contents };
                push(c);
            }
        }
        // simplify arguments of operations
        for i in 0..n {
            match &case.ops[i] {
                Op::Extend(vs) if vs.len() > 1 => {
                    let mut c = case.clone();
                    c.ops[i] = Op::Extend(vs[..vs.len() / 2].to_vec());
                    push(c);
                }
                Op::Atomic(a) if a.len() > 1 => {
                    for j in 0..a.len() {
                        let mut c = case.clone();
                        let mut a2 = a.clone();
                        a2.remove(j);
                        c.ops[i] = Op::Atomic(a2);
                        push(c);
                    }
                }
                Op::Chunks { size, writes } if !writes.is_empty() => {
                    let mut c = case.clone();
                    c.ops[i] = Op::Chunks { size: *size, writes: vec![] };
                    push(c);
                }
                Op::Copy { from, to, len, dst_len, dst_seed, dst_extra } => {
                    if *dst_extra > 0 {
                        let mut c = case.clone();
                        c.ops[i] = Op::Copy { from: *from, to: *to, len: *len, dst_len: *dst_len, dst_seed: *dst_seed, dst_extra: 0 };
                        push(c);
                    }
                    if *len > 1 && *len < usize::MAX / 8 {
                        let mut c = case.clone();
                        c.ops[i] = Op::Copy { from: *from, to: *to, len: *len - 1, dst_len: *dst_len, dst_seed: *dst_seed, dst_extra: *dst_extra };
                        push(c);
                    }
                    if *from > 0 {
                        let mut c = case.clone();
                        c.ops[i] = Op::Copy { from: *from - 1, to: *to, len: *len, dst_len: *dst_len, dst_seed: *dst_seed, dst_extra: *dst_extra };
                        push(c);
                    }
                    if *to > 0 {
                        let mut c = case.clone();
                        c.ops[i] = Op::Copy { from: *from, to: *to - 1, len: *len, dst_len: *dst_len, dst_seed: *dst_seed, dst_extra: *dst_extra };
                        push(c);
                    }
                }
                _ => {}
            }
        }
        if case.pool != 1 {
            let mut c = case.clone();
            c.pool = 1;
            push(c);
        }
        v
    }
}
