//! BitFieldVec / AtomicBitFieldVec interpreter, instantiated per word type.

// The observers and interpreters of single operations are instantiated once per concrete backend
// type (never generically over the backend) and written in the method-call syntax a user writes:
// an inherent method on one concrete `BitFieldVec<W, ...>` type shadows the trait method there and
// only there, and a generic function would never resolve to it.
macro_rules! bfv_observe_fn {
    ($name:ident, $ty:ty) => {
        #[allow(clippy::all)]
        fn $name(v: &$ty, st: &mut St, op: &str) {
                if st.ctx.failed() {
                    return;
                }
                let n = st.vals.len();
                st.ctx.out.checks += 3;
                if BitFieldSliceCore::len(v) != n {
                    let s = sig(st, op, "len");
                    st.ctx.fail("len", s, format!("len() = {} after step {}", BitFieldSliceCore::len(v), st.step), format!("{n}"));
                    return;
                }
                if BitFieldSliceCore::bit_width(v) != st.width {
                    let s = sig(st, op, "bit_width");
                    st.ctx.fail("bit_width", s, format!("{}", BitFieldSliceCore::bit_width(v)), format!("{}", st.width));
                    return;
                }
                let stride = if n > 4096 { n / 1024 } else { 1 };
                let mut i = 0;
                while i < n {
                    let got = v.get(i) as u128;
                    st.ctx.out.checks += 1;
                    if got != st.vals[i] {
                        let s = sig(st, op, "get");
                        st.ctx.fail("get", s, format!("get({i}) = {got} after step {} ({op}), len {n}, width {}", st.step, st.width), format!("{}", st.vals[i]));
                        return;
                    }
                    i += stride;
                }
                if n <= 4096 {
                    set_op("bfv:iter");
                    let it = v.iter();
                    st.ctx.out.checks += 1;
                    if it.len() != n {
                        let s = sig(st, "iter", "exact_len");
                        st.ctx.fail("iter_len", s, format!("{}", it.len()), format!("{n}"));
                        return;
                    }
                    let got: Vec<u128> = it.map(|x| x as u128).collect();
                    if got != st.vals {
                        let bad = got.iter().zip(&st.vals).position(|(a, b)| a != b);
                        let s = sig(st, "iter", "items");
                        st.ctx.fail("iter", s, format!("iter() differs at {bad:?} (got {} items) after step {} ({op})", got.len(), st.step), format!("{} items of the model", n));
                        return;
                    }
                    // equality against clean twins
                    set_op("bfv:eq");
                    let tw = clean_words(st.width, &st.vals, 0);
                    let twin: BitFieldVec<W, &[W]> = unsafe { BitFieldVec::from_raw_parts(&tw[..], st.width, n) };
                    st.ctx.out.checks += 1;
                    if !(*v == twin) {
                        let s = sig(st, "eq", "equal_contents_compare_unequal");
                        st.ctx.fail("eq", s, "v == clean twin is false", "true");
                        return;
                    }
                    if n > 0 && st.width > 0 {
                        let mut other = st.vals.clone();
                        let j = (st.step * 7 + 3) % n;
                        other[j] ^= 1u128 << ((st.step * 5) % st.width);
                        let tw2 = clean_words(st.width, &other, 0);
                        let twin2: BitFieldVec<W, &[W]> = unsafe { BitFieldVec::from_raw_parts(&tw2[..], st.width, n) };
                        st.ctx.out.checks += 1;
                        if *v == twin2 {
                            let s = sig(st, "eq", "different_contents_compare_equal");
                            st.ctx.fail("eq", s, format!("v == twin differing at element {j}"), "false");
                        }
                    }
                }
            }
    };
}
macro_rules! bfv_common_fn {
    ($name:ident, $ty:ty) => {
        #[allow(clippy::all)]
        fn $name(v: &mut $ty, st: &mut St, op: &Op) -> bool {
                let n = st.vals.len();
                let width = st.width;
                match op {
                    Op::Set(i, val) => {
                        if *i >= n || *val > mask128(width) {
                            return false;
                        }
                        set_op("bfv:set");
                        v.set(*i, *val as W);
                        st.vals[*i] = *val;
                        true
                    }
                    Op::Reset => {
                        set_op("bfv:reset");
                        v.reset();
                        st.vals.iter_mut().for_each(|x| *x = 0);
                        true
                    }
                    Op::ParReset => {
                        set_op("bfv:par_reset");
                        v.par_reset();
                        st.vals.iter_mut().for_each(|x| *x = 0);
                        true
                    }
                    Op::Apply { kind, k } => {
                        set_op("bfv:apply_in_place");
                        let m = mask128(width);
                        let mut seen: Vec<u128> = Vec::new();
                        let mut acc: u128 = 0;
                        let kk = *k & m;
                        v.apply_in_place(|x| {
                            seen.push(x as u128);
                            let r = if *kind == 0 {
                                (x as u128) ^ kk
                            } else {
                                acc = acc.wrapping_add(x as u128) & m;
                                acc
                            };
                            r as W
                        });
                        st.ctx.out.checks += 1;
                        if seen != st.vals {
                            let s = sig(st, "apply_in_place", "calls");
                            let bad = seen.iter().zip(&st.vals).position(|(a, b)| a != b);
                            st.ctx.fail(
                                "apply_calls",
                                s,
                                format!("f was called {} times; first argument differing from the current value at call {bad:?}", seen.len()),
                                format!("{n} calls, in index order, on the current values"),
                            );
                            return true;
                        }
                        let mut acc: u128 = 0;
                        for x in st.vals.iter_mut() {
                            if *kind == 0 {
                                *x ^= kk;
                            } else {
                                acc = acc.wrapping_add(*x) & m;
                                *x = acc;
                            }
                        }
                        true
                    }
                    Op::Chunks { size, writes } => {
                        if *size == 0 {
                            return false;
                        }
                        set_op("bfv:try_chunks_mut");
                        let should_ok = n <= *size || (*size * width) % WB == 0;
                        let vals = st.vals.clone();
                        let mut newvals = st.vals.clone();
                        let mut err: Option<(String, String, String)> = None;
                        match v.try_chunks_mut(*size) {
                            Err(()) => {
                                if should_ok {
                                    err = Some(("err_when_documented_ok".into(), "Err(())".into(), "Ok(chunks)".into()));
                                }
                            }
                            Ok(chunks) => {
                                if !should_ok {
                                    err = Some(("ok_when_documented_err".into(), "Ok(chunks)".into(), "Err(())".into()));
                                } else {
                                    let mut count = 0;
                                    for (ci, mut ch) in chunks.enumerate() {
                                        count += 1;
                                        let base = ci * *size;
                                        let want_len = (*size).min(n.saturating_sub(base));
                                        if BitFieldSliceCore::len(&ch) != want_len {
                                            err = Some(("chunk_len".into(), format!("chunk {ci} has len {}", BitFieldSliceCore::len(&ch)), format!("{want_len}")));
                                            break;
                                        }
                                        for j in 0..want_len {
                                            let got = ch.get(j) as u128;
                                            if got != vals[base + j] {
                                                err = Some(("chunk_read".into(), format!("chunk {ci} element {j} = {got}"), format!("{}", vals[base + j])));
                                                break;
                                            }
                                        }
                                        if err.is_some() {
                                            break;
                                        }
                                        for (wc, wi, wv) in writes {
                                            if *wc == ci && *wi < want_len && *wv <= mask128(width) {
                                                ch.set(*wi, *wv as W);
                                                newvals[base + *wi] = *wv;
                                            }
                                        }
                                    }
                                    if err.is_none() && n > 0 && count != n.div_ceil(*size) {
                                        err = Some(("chunk_count".into(), format!("{count} chunks"), format!("{}", n.div_ceil(*size))));
                                    }
                                }
                            }
                        }
                        st.ctx.out.checks += 1;
                        if let Some((w, o, e)) = err {
                            let s = sig(st, "try_chunks_mut", &w);
                            st.ctx.fail("chunks", s, format!("{o} (len {n}, width {width}, chunk size {size})"), e);
                        }
                        st.vals = newvals;
                        true
                    }
                    Op::Copy { from, to, len, dst_len, dst_seed, dst_extra } => {
                        if *from > n || *to > *dst_len {
                            return false;
                        }
                        set_op("bfv:copy");
                        let dvals: Vec<u128> = (0..*dst_len as u64).map(|i| value_at(*dst_seed, i, width)).collect();
                        let mut dwords = garbage_words(needed(width, *dst_len).max(1) + *dst_extra, *dst_seed ^ 0xabc, 2);
                        for (i, &x) in dvals.iter().enumerate() {
                            put(&mut dwords, width, i, x);
                        }
                        let mut expect = dwords.clone();
                        let eff = (*len).min(*dst_len - *to).min(n - *from);
                        for i in 0..eff {
                            put(&mut expect, width, *to + i, st.vals[*from + i]);
                        }
                        {
                            let mut dst: BitFieldVec<W, &mut [W]> = unsafe { BitFieldVec::from_raw_parts(&mut dwords[..], width, *dst_len) };
                            // the trait method wants Self; build a source view of the same type over a copy of our storage
                            let mut scopy: Vec<W> = v.as_slice().to_vec();
                            let src: BitFieldVec<W, &mut [W]> = unsafe { BitFieldVec::from_raw_parts(&mut scopy[..], width, n) };
                            src.copy(*from, &mut dst, *to, *len);
                        }
                        st.ctx.out.checks += 1;
                        if dwords != expect {
                            let wi = dwords.iter().zip(&expect).position(|(a, b)| a != b).unwrap_or(0);
                            let bit = wi * WB + (dwords[wi] ^ expect[wi]).trailing_zeros() as usize;
                            let el = if width > 0 { bit / width } else { 0 };
                            let inside = width > 0 && el >= *to && el < *to + eff;
                            let src_pos = *from * width;
                            let dst_pos = *to * width;
                            let (sb, db) = (src_pos % WB, dst_pos % WB);
                            let bit_len = eff * width;
                            let s1 = bit_len > 0 && src_pos / WB == (src_pos + bit_len - 1) / WB;
                            let d1 = bit_len > 0 && dst_pos / WB == (dst_pos + bit_len - 1) / WB;
                            let branch = match (s1, d1) {
                                (true, true) => "single_single",
                                (true, false) => "single_multi",
                                (false, true) => "multi_single",
                                _ if sb == db => "multi_aligned",
                                _ if sb < db => "multi_src_lt_dst",
                                _ => "multi_src_gt_dst",
                            };
                            let s = sig(st, "copy", &format!("{}:{}", branch, if inside { "copied_element_wrong" } else { "other_bits_changed" }));
                            st.ctx.fail(
                                "copy",
                                s,
                                format!("copy(from={from}, to={to}, len={len}) width {width}: destination word {wi} = {:#x} (element {el})", dwords[wi]),
                                format!("{:#x}", expect[wi]),
                            );
                        } else {
                            let src_pos = *from * width;
                            let dst_pos = *to * width;
                            let bit_len = eff * width;
                            if bit_len > 0 {
                                let s1 = src_pos / WB == (src_pos + bit_len - 1) / WB;
                                let d1 = dst_pos / WB == (dst_pos + bit_len - 1) / WB;
                                let (sb, db) = (src_pos % WB, dst_pos % WB);
                                let b = match (s1, d1) {
                                    (true, true) => "copy.single_single",
                                    (true, false) => "copy.single_multi",
                                    (false, true) => "copy.multi_single",
                                    _ if sb == db => "copy.multi_aligned",
                                    _ if sb < db => "copy.multi_src_lt_dst",
                                    _ => "copy.multi_src_gt_dst",
                                };
                                st.ctx.out.probe(b, 1);
                            }
                        }
                        false // the object itself is not modified
                    }
                    _ => false,
                }
            }
    };
}
macro_rules! bfv_read_only_fn {
    ($name:ident, $ty:ty) => {
        #[allow(clippy::all)]
        fn $name(v: &$ty, st: &mut St, op: &Op, has_padding: bool) {
                let n = st.vals.len();
                let width = st.width;
                match op {
                    Op::GetUnaligned(i) => {
                        let admissible = width <= WB - 8 + 2 || width == WB - 8 + 4 || width == WB;
                        if *i < n && admissible && has_padding && WB <= 64 {
                            set_op("bfv:get_unaligned");
                            let got = v.get_unaligned(*i) as u128;
                            st.ctx.out.checks += 1;
                            if got != st.vals[*i] {
                                let s = sig(st, "get_unaligned", &format!("word{WB}"));
                                st.ctx.fail("get_unaligned", s, format!("get_unaligned({i}) = {got} (width {width})"), format!("{}", st.vals[*i]));
                            }
                        }
                    }
                    Op::IterFrom(k) => {
                        if *k <= n {
                            set_op("bfv:iter_from");
                            let it = v.iter_from(*k);
                            let l = it.len();
                            let got: Vec<u128> = it.map(|x| x as u128).collect();
                            st.ctx.out.checks += 1;
                            if got != st.vals[*k..] || l != n - *k {
                                let s = sig(st, "iter_from", "items");
                                st.ctx.fail("iter_from", s, format!("iter_from({k}) yields {} items (len hint {l})", got.len()), format!("the {} items from {k}", n - *k));
                            }
                            set_op("bfv:iter_protocol");
                            let want: Vec<W> = st.vals[*k..].iter().map(|&x| x as W).collect();
                            if !st.ctx.failed() {
                                st.ctx.out.checks += 8;
                                let r = iter_protocol(|| v.iter_from(*k), &want, st.step * 31 + *k, true).or_else(|| iter_protocol(|| v.into_iter_from(*k), &want, st.step * 17 + *k + 5, true));
                                if let Some(e) = r {
                                    let s = sig(st, "iter_from", "iterator_protocol");
                                    st.ctx.fail("iter_protocol", s, format!("iter_from({k}) over {n} elements: {e}"), "what the same calls give on a slice");
                                }
                            }
                            set_op("bfv:into_iter_from");
                            let got2: Vec<u128> = v.into_iter_from(*k).map(|x| x as u128).collect();
                            if got2 != st.vals[*k..] && !st.ctx.failed() {
                                let s = sig(st, "into_iter_from", "items");
                                st.ctx.fail("iter_from", s, format!("{} items", got2.len()), format!("{}", n - *k));
                            }
                        }
                    }
                    Op::UncheckedFrom(k) => {
                        if *k <= n {
                            set_op("bfv:into_unchecked_iter_from");
                            let mut it = v.into_unchecked_iter_from(*k);
                            for i in *k..n {
                                let got = unsafe { it.next_unchecked() } as u128;
                                st.ctx.out.checks += 1;
                                if got != st.vals[i] {
                                    let s = sig(st, "unchecked_iter", "items");
                                    st.ctx.fail("unchecked_iter", s, format!("element {i} (start {k}) = {got}"), format!("{}", st.vals[i]));
                                    break;
                                }
                            }
                        }
                    }
                    Op::RevIterFrom(k) => {
                        if *k <= n {
                            set_op("bfv:into_rev_unchecked_iter_from");
                            let mut it = v.into_rev_unchecked_iter_from(*k);
                            for i in (0..*k).rev() {
                                let got = unsafe { it.next_unchecked() } as u128;
                                st.ctx.out.checks += 1;
                                if got != st.vals[i] {
                                    let s = sig(st, "rev_unchecked_iter", "items");
                                    st.ctx.fail("rev_unchecked_iter", s, format!("element {i} (start {k}) = {got}"), format!("{}", st.vals[i]));
                                    break;
                                }
                            }
                            if *k == n && !st.ctx.failed() {
                                let mut it = v.into_rev_unchecked_iter();
                                for i in (0..n).rev() {
                                    let got = unsafe { it.next_unchecked() } as u128;
                                    if got != st.vals[i] {
                                        let s = sig(st, "rev_unchecked_iter", "items");
                                        st.ctx.fail("rev_unchecked_iter", s, format!("element {i} = {got}"), format!("{}", st.vals[i]));
                                        break;
                                    }
                                }
                            }
                        }
                    }
                    Op::ToOwned => {}
                    Op::Reject { kind, k } => {
                        let label = match kind {
                            0 => "get_out_of_range",
                            3 => "iter_from_past_end",
                            _ => return,
                        };
                        set_op("bfv:reject");
                        let r = match kind {
                            0 => expect_panic(|| v.get(n + *k) as u128).map_err(|x| format!("returned {x}")),
                            _ => expect_panic(|| v.iter_from(n + 1 + *k).count()).map_err(|x| format!("returned an iterator of {x} items")),
                        };
                        st.ctx.out.checks += 1;
                        st.ctx.out.fault(&format!("reject.{label}"));
                        if let Err(o) = r {
                            let s = sig(st, "reject", label);
                            st.ctx.fail("not_rejected", s, o, "an unwinding panic");
                        }
                    }
                    _ => {}
                }
            }
    };
}

macro_rules! bfv_mod {
    ($m:ident, $w:ty, $atomic:tt) => {
        pub mod $m {
            use crate::core::world::*;
            use crate::worlds::bits::*;
            use std::sync::atomic::Ordering;
            use sux::bits::*;
            use sux::traits::bit_field_slice::*;
            use sux::traits::iter::*;

            type W = $w;
            const WB: usize = <$w>::BITS as usize;

            /// bit-level writer: the independent model of the storage layout
            fn put(words: &mut [W], width: usize, i: usize, v: u128) {
                for k in 0..width {
                    let b = i * width + k;
                    let (wi, bi) = (b / WB, b % WB);
                    if (v >> k) & 1 != 0 {
                        words[wi] |= (1 as W) << bi;
                    } else {
                        words[wi] &= !((1 as W) << bi);
                    }
                }
            }
            fn fetch(words: &[W], width: usize, i: usize) -> u128 {
                let mut v = 0u128;
                for k in 0..width {
                    let b = i * width + k;
                    if (words[b / WB] >> (b % WB)) & 1 != 0 {
                        v |= 1u128 << k;
                    }
                }
                v
            }
            fn needed(width: usize, len: usize) -> usize {
                (len * width).div_ceil(WB)
            }
            fn clean_words(width: usize, vals: &[u128], extra: usize) -> Vec<W> {
                let mut w = vec![0 as W; needed(width, vals.len()).max(1) + extra];
                for (i, &v) in vals.iter().enumerate() {
                    put(&mut w, width, i, v);
                }
                w
            }
            fn garbage_words(n: usize, seed: u64, pattern: u8) -> Vec<W> {
                (0..n).map(|i| garbage_word(seed, i as u64, pattern) as W).collect()
            }

            enum Obj {
                Grow(BitFieldVec<W, Vec<W>>),
                /// simulator-owned storage; views are created per operation
                Raw { st: Vec<W>, len: usize },
            }

            struct St<'a, 'b> {
                case: &'a BitsCase,
                ctx: &'a mut Ctx<'b>,
                width: usize,
                vals: Vec<u128>,
                /// expected storage for Raw objects
                mst: Vec<W>,
                step: usize,
            }

            fn sig(st: &St, op: &str, what: &str) -> String {
                let wc = match st.width {
                    0 => "w0",
                    x if x == WB => "wfull",
                    _ => "w",
                };
                format!("bits:bfv:{}:{}:{}", op, wc, what)
            }

            /// Every read operation against the model (shared by growable, raw and chunk views).
            bfv_observe_fn!(observe_vec, BitFieldVec<W, Vec<W>>);
            bfv_observe_fn!(observe_box, BitFieldVec<W, Box<[W]>>);
            bfv_observe_fn!(observe_ref, BitFieldVec<W, &[W]>);

            fn check_storage(st: &mut St, actual: &[W], op: &str) {
                if st.ctx.failed() {
                    return;
                }
                st.ctx.out.checks += 1;
                if actual != &st.mst[..] {
                    let wi = actual.iter().zip(&st.mst).position(|(a, b)| a != b).unwrap_or(0);
                    let x = actual[wi] ^ st.mst[wi];
                    let bit = wi * WB + x.trailing_zeros() as usize;
                    let inside = bit < st.vals.len() * st.width;
                    let s = sig(st, op, if inside { "storage_bit_wrong" } else { "slack_modified" });
                    st.ctx.fail(
                        if inside { "storage" } else { "slack_modified" },
                        s,
                        format!("after step {} ({op}) storage word {wi} = {:#x}, first differing bit {bit} ({} the contents of {} elements x {} bits)", st.step, actual[wi], if inside { "inside" } else { "outside" }, st.vals.len(), st.width),
                        format!("{:#x}", st.mst[wi]),
                    );
                }
            }

            /// Operations available on any backend.
            bfv_common_fn!(common_vec, BitFieldVec<W, Vec<W>>);
            bfv_common_fn!(common_mut, BitFieldVec<W, &mut [W]>);

            bfv_read_only_fn!(read_only_vec, BitFieldVec<W, Vec<W>>);
            bfv_read_only_fn!(read_only_mut, BitFieldVec<W, &mut [W]>);

            bfv_mod!(@atomic $atomic);

            pub fn run(case: &BitsCase, ctx: &mut Ctx) {
                let width = case.width.min(WB);
                let mut st = St { case, ctx, width, vals: vec![], mst: vec![], step: 0 };
                set_op("bfv:init");
                let mut obj = match &case.init {
                    Init::New { len } => {
                        st.vals = vec![0; *len];
                        Obj::Grow(BitFieldVec::<W>::new(width, *len))
                    }
                    Init::NewUnaligned { len } => {
                        st.vals = vec![0; *len];
                        Obj::Grow(BitFieldVec::<W>::new_unaligned(width, *len))
                    }
                    Init::WithCapacity { cap } => Obj::Grow(BitFieldVec::<W>::with_capacity(width, *cap)),
                    Init::Macro { form, n, v } => bfv_mod!(@macro_init $w, st, width, form, n, v),
                    Init::FromSlice { len, seed } => {
                        // the width was derived by the generator from the same values
                        let src: Vec<u128> = (0..*len as u64).map(|i| value_at(*seed, i, case.width.min(WB))).collect();
                        let maxw = src.iter().map(|x| 128 - x.leading_zeros() as usize).max().unwrap_or(0);
                        st.width = maxw;
                        st.vals = src.clone();
                        let sv: Vec<W> = src.iter().map(|&x| x as W).collect();
                        match BitFieldVec::<W>::from_slice(&sv) {
                            Ok(v) => {
                                // "the minimum width sufficient to hold all values": any width that holds them
                                // keeps every observation right; only a narrower one is wrong
                                let actual = BitFieldSliceCore::bit_width(&v);
                                if actual < maxw {
                                    st.ctx.fail("from_slice", "bits:bfv:from_slice:width_too_small", format!("{actual}"), format!(">= {maxw}"));
                                    return;
                                }
                                st.width = actual;
                                Obj::Grow(v)
                            }
                            Err(e) => {
                                st.ctx.fail("from_slice", "bits:bfv:from_slice:err", format!("{e}"), "Ok");
                                return;
                            }
                        }
                    }
                    Init::Raw { len, extra, garbage, pattern, contents } => {
                        let nw = needed(width, *len).max(1) + *extra;
                        let mut w = garbage_words(nw, *garbage, *pattern);
                        st.vals = (0..*len as u64).map(|i| value_at(*contents, i, width)).collect();
                        for (i, &x) in st.vals.iter().enumerate() {
                            put(&mut w, width, i, x);
                        }
                        st.mst = w.clone();
                        st.ctx.out.fault("slack.tail");
                        if *extra > 0 {
                            st.ctx.out.fault("slack.words");
                        }
                        Obj::Raw { st: w, len: *len }
                    }
                    _ => {
                        st.vals = vec![];
                        Obj::Grow(BitFieldVec::<W>::new(width, 0))
                    }
                };
                match &mut obj {
                    Obj::Grow(v) => observe_vec(&*v, &mut st, "init"),
                    Obj::Raw { st: w, len } => {
                        let v: BitFieldVec<W, &[W]> = unsafe { BitFieldVec::from_raw_parts(&w[..], st.width, *len) };
                        observe_ref(&v, &mut st, "init");
                    }
                }
                for (si, op) in case.ops.iter().enumerate() {
                    if st.ctx.failed() {
                        break;
                    }
                    st.step = si + 1;
                    st.ctx.out.steps += 1;
                    let width = st.width;
                    let opname = format!("{op:?}");
                    let opname = opname.split(|c: char| !c.is_alphanumeric()).next().unwrap_or("").to_string();
                    match &mut obj {
                        Obj::Grow(v) => {
                            let n = st.vals.len();
                            let handled = match op {
                                Op::Push(x) => {
                                    if *x <= mask128(width) {
                                        set_op("bfv:push");
                                        v.push(*x as W);
                                        st.vals.push(*x);
                                    }
                                    true
                                }
                                Op::Pop => {
                                    set_op("bfv:pop");
                                    let got = v.pop().map(|x| x as u128);
                                    let want = st.vals.pop();
                                    st.ctx.out.checks += 1;
                                    if got != want {
                                        let s = sig(&st, "pop", "value");
                                        st.ctx.fail("pop", s, format!("{got:?}"), format!("{want:?}"));
                                    }
                                    true
                                }
                                Op::Resize(m, x) => {
                                    if *x <= mask128(width) && *m <= 100_000_000 {
                                        set_op("bfv:resize");
                                        v.resize(*m, *x as W);
                                        st.vals.resize(*m, *x);
                                    }
                                    true
                                }
                                Op::Clear => {
                                    set_op("bfv:clear");
                                    v.clear();
                                    st.vals.clear();
                                    true
                                }
                                Op::Extend(xs) => {
                                    if xs.iter().all(|x| *x <= mask128(width)) {
                                        set_op("bfv:extend");
                                        v.extend(xs.iter().map(|&x| x as W));
                                        st.vals.extend(xs.iter().copied());
                                    }
                                    true
                                }
                                Op::BoxRoundtrip => {
                                    set_op("bfv:box_roundtrip");
                                    let taken = std::mem::replace(v, BitFieldVec::<W>::new(0, 0));
                                    let b: BitFieldVec<W, Box<[W]>> = taken.into();
                                    observe_box(&b, &mut st, "into_box");
                                    *v = b.into();
                                    true
                                }
                                Op::ToOwned => true,
                                Op::Atomic(aops) => {
                                    let taken = std::mem::replace(v, BitFieldVec::<W>::new(0, 0));
                                    *v = atomic_session(taken, &mut st, aops);
                                    true
                                }
                                Op::Reject { kind, k } => {
                                    match kind {
                                        1 | 2 | 4 | 5 => {
                                            set_op("bfv:reject");
                                            let tw = too_wide(width, WB, *k);
                                            let (label, r) = match kind {
                                                1 => ("set_out_of_range", Some(expect_panic(|| v.set(n + *k, 0)).map_err(|_| "returned".to_string()))),
                                                2 if n > 0 && tw.is_some() => ("set_value_too_wide", Some(expect_panic(|| v.set(*k % n, tw.unwrap() as W)).map_err(|_| "returned".to_string()))),
                                                4 if tw.is_some() => ("push_value_too_wide", Some(expect_panic(|| v.push(tw.unwrap() as W)).map_err(|_| "returned".to_string()))),
                                                5 if tw.is_some() => ("resize_value_too_wide", Some(expect_panic(|| v.resize(n + 1 + *k, tw.unwrap() as W)).map_err(|_| "returned".to_string()))),
                                                _ => ("", None),
                                            };
                                            if let Some(r) = r {
                                                st.ctx.out.checks += 1;
                                                st.ctx.out.fault(&format!("reject.{label}"));
                                                if let Err(o) = r {
                                                    let s = sig(&st, "reject", label);
                                                    st.ctx.fail("not_rejected", s, o, "an unwinding panic");
                                                }
                                            }
                                        }
                                        6 => {
                                            let taken = std::mem::replace(v, BitFieldVec::<W>::new(0, 0));
                                            *v = atomic_reject(taken, &mut st, *k);
                                        }
                                        _ => read_only_vec(&*v, &mut st, op, false),
                                    }
                                    true
                                }
                                _ => false,
                            };
                            if !handled {
                                let has_pad = matches!(case.init, Init::NewUnaligned { .. }) && !case.ops[..si].iter().any(|o| matches!(o, Op::Push(_) | Op::Resize(..) | Op::Extend(_) | Op::Clear | Op::Pop));
                                if !common_vec(v, &mut st, op) {
                                    read_only_vec(&*v, &mut st, op, has_pad);
                                }
                            }
                            observe_vec(&*v, &mut st, &opname);
                        }
                        Obj::Raw { st: w, len } => {
                            let n = *len;
                            match op {
                                Op::Rescramble(seed) => {
                                    // new garbage in every bit outside the contents, written through the safe accessor
                                    let mut v: BitFieldVec<W, &mut [W]> = unsafe { BitFieldVec::from_raw_parts(&mut w[..], width, n) };
                                    let sl = v.as_mut_slice();
                                    let g = garbage_words(sl.len(), *seed, 2);
                                    for b in (n * width)..(sl.len() * WB) {
                                        let (wi, bi) = (b / WB, b % WB);
                                        if (g[wi] >> bi) & 1 != 0 {
                                            sl[wi] |= (1 as W) << bi;
                                        } else {
                                            sl[wi] &= !((1 as W) << bi);
                                        }
                                    }
                                    st.mst = w.clone();
                                    st.ctx.out.fault("slack.rescramble");
                                }
                                Op::Atomic(aops) => {
                                    let taken = std::mem::take(w);
                                    let v: BitFieldVec<W, Vec<W>> = unsafe { BitFieldVec::from_raw_parts(taken, width, n) };
                                    let back = atomic_session(v, &mut st, aops);
                                    let (raw, _, _) = back.into_raw_parts();
                                    *w = raw;
                                    for (i, &x) in st.vals.iter().enumerate() {
                                        put(&mut st.mst, width, i, x);
                                    }
                                    check_storage(&mut st, w, "atomic_session");
                                }
                                Op::Reject { kind: 1, k } => {
                                    set_op("bfv:reject");
                                    let mut v: BitFieldVec<W, &mut [W]> = unsafe { BitFieldVec::from_raw_parts(&mut w[..], width, n) };
                                    let r = expect_panic(|| v.set(n + *k, 0));
                                    st.ctx.out.fault("reject.set_out_of_range");
                                    if r.is_err() {
                                        let s = sig(&st, "reject", "set_out_of_range");
                                        st.ctx.fail("not_rejected", s, "returned", "an unwinding panic");
                                    }
                                    check_storage(&mut st, w, "rejected_set");
                                }
                                _ => {
                                    let modified = {
                                        let mut v: BitFieldVec<W, &mut [W]> = unsafe { BitFieldVec::from_raw_parts(&mut w[..], width, n) };
                                        let m = common_mut(&mut v, &mut st, op);
                                        if !m {
                                            let has_pad = w_has_padding(width, n, v.as_slice().len());
                                            read_only_mut(&v, &mut st, op, has_pad);
                                        }
                                        m
                                    };
                                    if modified {
                                        for (i, &x) in st.vals.iter().enumerate() {
                                            put(&mut st.mst, width, i, x);
                                        }
                                    }
                                    check_storage(&mut st, w, &opname);
                                }
                            }
                            let v: BitFieldVec<W, &[W]> = unsafe { BitFieldVec::from_raw_parts(&w[..], width, n) };
                            observe_ref(&v, &mut st, &opname);
                        }
                    }
                }
                let wc = match st.width {
                    0 => "0".to_string(),
                    x if x == WB => "full".into(),
                    x if x == WB - 1 => "full-1".into(),
                    x if x.is_power_of_two() => "pow2".into(),
                    _ => "odd".into(),
                };
                let kinds: std::collections::BTreeSet<String> = case.ops.iter().map(|o| format!("{o:?}").split(|c: char| !c.is_alphanumeric()).next().unwrap_or("").to_string()).collect();
                let init = format!("{:?}", case.init);
                let init = init.split(|c: char| !c.is_alphanumeric()).next().unwrap_or("").to_string();
                for k in kinds {
                    st.ctx.out.bucket(format!("bfv|{}|w={}|{}|{}", stringify!($w), wc, init, k));
                }
            }

            fn w_has_padding(width: usize, n: usize, words: usize) -> bool {
                words > needed(width, n)
            }
        }
    };
    (@macro_init usize, $st:ident, $width:ident, $form:ident, $n:ident, $v:ident) => {{
        let v = (*$v) & mask128($width);
        match $form {
            0 => Obj::Grow(sux::bit_field_vec![$width]),
            1 => {
                $st.vals = vec![v; *$n];
                Obj::Grow(sux::bit_field_vec![$width; *$n; v as usize])
            }
            2 => {
                $st.vals = vec![v; *$n];
                Obj::Grow(sux::bit_field_vec![$width => v as usize; *$n])
            }
            _ => {
                // the list form with three elements
                $st.vals = vec![v, 0, v];
                Obj::Grow(sux::bit_field_vec![$width; v as usize, 0, v as usize])
            }
        }
    }};
    (@macro_init $other:ty, $st:ident, $width:ident, $form:ident, $n:ident, $v:ident) => {{
        let _ = ($form, $n, $v);
        Obj::Grow(BitFieldVec::<W>::new($width, 0))
    }};
    (@atomic yes) => {
        /// Convert to the atomic form, run single-threaded atomic operations, convert back.
        fn atomic_session(v: BitFieldVec<W, Vec<W>>, st: &mut St, aops: &[AOp]) -> BitFieldVec<W, Vec<W>> {
            set_op("bfv:into_atomic");
            let mut a: AtomicBitFieldVec<W> = v.into();
            let width = st.width;
            for aop in aops {
                if st.ctx.failed() {
                    break;
                }
                let n = st.vals.len();
                match aop {
                    AOp::Get(i) if *i < n => {
                        set_op("bfv:get_atomic");
                        let got = a.get_atomic(*i, Ordering::Relaxed) as u128;
                        st.ctx.out.checks += 1;
                        if got != st.vals[*i] {
                            let s = sig(st, "get_atomic", "value");
                            st.ctx.fail("get_atomic", s, format!("get_atomic({i}) = {got}"), format!("{}", st.vals[*i]));
                        }
                    }
                    AOp::Set(i, x) if *i < n && *x <= mask128(width) => {
                        set_op("bfv:set_atomic");
                        a.set_atomic(*i, *x as W, Ordering::Relaxed);
                        st.vals[*i] = *x;
                    }
                    AOp::Reset => {
                        set_op("bfv:reset_atomic");
                        // the trait method, or the deprecated inherent `reset` that forwards to it
                        if (st.step + n) % 2 == 0 {
                            a.reset_atomic(Ordering::Relaxed);
                        } else {
                            #[allow(deprecated)]
                            a.reset(Ordering::Relaxed);
                        }
                        st.vals.iter_mut().for_each(|x| *x = 0);
                    }
                    AOp::ParReset => {
                        set_op("bfv:par_reset_atomic");
                        a.par_reset_atomic(Ordering::Relaxed);
                        st.vals.iter_mut().for_each(|x| *x = 0);
                    }
                    _ => {}
                }
                // full read-back through the atomic interface
                for i in 0..n.min(2048) {
                    let got = a.get_atomic(i, Ordering::Relaxed) as u128;
                    st.ctx.out.checks += 1;
                    if got != st.vals[i] && !st.ctx.failed() {
                        let s = sig(st, "get_atomic", "value_after_atomic_op");
                        st.ctx.fail("get_atomic", s, format!("after {aop:?}: get_atomic({i}) = {got}"), format!("{}", st.vals[i]));
                    }
                }
            }
            set_op("bfv:from_atomic");
            a.into()
        }
        fn atomic_reject(v: BitFieldVec<W, Vec<W>>, st: &mut St, k: usize) -> BitFieldVec<W, Vec<W>> {
            let a: AtomicBitFieldVec<W> = v.into();
            let n = st.vals.len();
            set_op("bfv:reject");
            let r1 = expect_panic(|| a.get_atomic(n + k, Ordering::Relaxed) as u128);
            let r2 = expect_panic(|| a.set_atomic(n + k, 0, Ordering::Relaxed));
            st.ctx.out.fault("reject.atomic_out_of_range");
            st.ctx.out.checks += 2;
            if r1.is_err() || r2.is_err() {
                let s = sig(st, "reject", "atomic_out_of_range");
                st.ctx.fail("not_rejected", s, "get_atomic/set_atomic past the end returned", "an unwinding panic");
            }
            if let Some(tw) = too_wide(st.width, WB, k) {
                if n > 0 {
                    let r3 = expect_panic(|| a.set_atomic(k % n, tw as W, Ordering::Relaxed));
                    st.ctx.out.fault("reject.atomic_value_too_wide");
                    if r3.is_err() {
                        let s = sig(st, "reject", "atomic_value_too_wide");
                        st.ctx.fail("not_rejected", s, "set_atomic of a value that does not fit returned", "an unwinding panic");
                    }
                }
            }
            a.into()
        }
    };
    (@atomic no) => {
        fn atomic_session(v: BitFieldVec<W, Vec<W>>, _st: &mut St, _aops: &[AOp]) -> BitFieldVec<W, Vec<W>> {
            v
        }
        fn atomic_reject(v: BitFieldVec<W, Vec<W>>, _st: &mut St, _k: usize) -> BitFieldVec<W, Vec<W>> {
            v
        }
    };
}

bfv_mod!(w_u8, u8, yes);
bfv_mod!(w_u16, u16, yes);
bfv_mod!(w_u32, u32, yes);
bfv_mod!(w_u64, u64, yes);
bfv_mod!(w_usize, usize, yes);
bfv_mod!(w_u128, u128, no);
