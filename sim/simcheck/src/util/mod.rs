pub mod faulty_lender;
pub mod shuttle_run;
