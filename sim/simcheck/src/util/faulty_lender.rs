//! `FaultyLender`: a `RewindableIoLender` over a vector of items whose failures are
//! decided by the case's fault plan. It counts passes, items and rewinds (the step
//! counter of builder runs) and enforces the pass budget that detects non-termination.

use lender::*;
use serde::{Deserialize, Serialize};
use std::borrow::Borrow;
use std::marker::PhantomData;
use std::sync::atomic::{AtomicU64, Ordering};
use std::sync::Arc;
use sux::utils::lenders::RewindableIoLender;

/// Pass budget for an input of `n` items: the deterministic non-termination detector.
///
/// Natural retries are frequent for small key sets (measured on the unchanged tree: up to
/// ~1300 consecutive `UnsolvableShard` retries for n = 106, tens for n <= 100), so the
/// budget is generous for small inputs (success probability per attempt >= 1/2000 would still
/// give a false-alarm probability below e^-50) and 64 passes for large ones.
pub fn pass_budget(n: usize) -> u64 {
    (8_000_000 / (n as u64 + 1)).clamp(64, max_passes())
}

/// Every attempt spawns fresh shuttle tasks whose stacks stay mapped until the execution ends,
/// so the number of attempts one execution can make is bounded by vm.max_map_count.
fn max_passes() -> u64 {
    static CAP: std::sync::OnceLock<u64> = std::sync::OnceLock::new();
    *CAP.get_or_init(|| {
        if let Some(v) = std::env::var("SIM_MAX_PASSES").ok().and_then(|v| v.parse().ok()) {
            return v;
        }
        // shuttle keeps every finished task (and its mapped stack) until the execution ends and scans
        // them at each step, so the cost of an execution grows quadratically with the number of
        // attempts: 12 000 attempts cost ~15 s, and stay below the default vm.max_map_count
        12_000
    })
}

#[derive(Debug)]
pub struct SimIoError {
    pub tag: String,
}
impl std::fmt::Display for SimIoError {
    fn fmt(&self, f: &mut std::fmt::Formatter<'_>) -> std::fmt::Result {
        write!(f, "simulated I/O error [{}]", self.tag)
    }
}
impl std::error::Error for SimIoError {}

/// A single planned lender fault.
#[derive(Clone, Debug, Serialize, Deserialize, PartialEq, Eq)]
pub struct LFault {
    /// "keys" | "values"
    pub source: String,
    /// "item" (fail when about to deliver item `index` of pass `pass`) | "rewind" (fail the `index`-th rewind, 0-based)
    pub kind: String,
    pub pass: u64,
    pub index: u64,
}

impl LFault {
    pub fn tag(&self) -> String {
        format!("{}:{}:p{}:i{}", self.source, self.kind, self.pass, self.index)
    }
}

#[derive(Debug, Default)]
pub struct LenderStats {
    pub passes: AtomicU64,
    pub items: AtomicU64,
    pub rewinds: AtomicU64,
    pub item_faults: AtomicU64,
    pub rewind_faults: AtomicU64,
    pub budget_hit: AtomicU64,
    pub max_pass_items: AtomicU64,
}

impl LenderStats {
    pub fn get(a: &AtomicU64) -> u64 {
        a.load(Ordering::Relaxed)
    }
}

pub struct FaultyLender<O, T: ?Sized> {
    items: Arc<Vec<O>>,
    pos: usize,
    pass: u64,
    rewinds: u64,
    source: &'static str,
    faults: Vec<LFault>,
    budget: u64,
    pub stats: Arc<LenderStats>,
    _m: PhantomData<fn() -> *const T>,
}

impl<O, T: ?Sized> FaultyLender<O, T> {
    pub fn new(items: Arc<Vec<O>>, source: &'static str, faults: &[LFault]) -> Self {
        let stats = Arc::new(LenderStats::default());
        let budget = pass_budget(items.len());
        stats.passes.store(1, Ordering::Relaxed);
        FaultyLender {
            items,
            pos: 0,
            pass: 0,
            rewinds: 0,
            source,
            budget,
            faults: faults.iter().filter(|f| f.source == source).cloned().collect(),
            stats,
            _m: PhantomData,
        }
    }
}

impl<'lend, O, T: ?Sized + 'lend> Lending<'lend> for FaultyLender<O, T> {
    type Lend = Result<&'lend T, SimIoError>;
}

impl<O: Borrow<T>, T: ?Sized + 'static> Lender for FaultyLender<O, T> {
    fn next(&mut self) -> Option<Lend<'_, Self>> {
        if self.pass >= self.budget {
            self.stats.budget_hit.fetch_add(1, Ordering::Relaxed);
            panic!("SIM_BUDGET: lender `{}` asked for pass {} (budget {})", self.source, self.pass + 1, self.budget);
        }
        for f in &self.faults {
            if f.kind == "item" && f.pass == self.pass && f.index == self.pos as u64 {
                self.stats.item_faults.fetch_add(1, Ordering::Relaxed);
                // the failed item is not delivered; a retry of next() delivers the same fault again
                return Some(Err(SimIoError { tag: f.tag() }));
            }
        }
        if self.pos >= self.items.len() {
            return None;
        }
        let it = self.items[self.pos].borrow();
        self.pos += 1;
        self.stats.items.fetch_add(1, Ordering::Relaxed);
        self.stats.max_pass_items.fetch_max(self.pos as u64, Ordering::Relaxed);
        Some(Ok(it))
    }
}

impl<O: Borrow<T>, T: ?Sized + 'static> RewindableIoLender<T> for FaultyLender<O, T> {
    type Error = SimIoError;
    fn rewind(mut self) -> Result<Self, SimIoError> {
        let ord = self.rewinds;
        self.rewinds += 1;
        self.stats.rewinds.fetch_add(1, Ordering::Relaxed);
        for f in &self.faults {
            if f.kind == "rewind" && f.index == ord {
                self.stats.rewind_faults.fetch_add(1, Ordering::Relaxed);
                return Err(SimIoError { tag: f.tag() });
            }
        }
        self.pos = 0;
        self.pass += 1;
        self.stats.passes.fetch_add(1, Ordering::Relaxed);
        Ok(self)
    }
}
