//! Run a closure as one or more shuttle executions on a fresh OS thread.

use serde::{Deserialize, Serialize};
use std::sync::{Arc, Mutex};

#[derive(Clone, Debug, Serialize, Deserialize, PartialEq)]
pub struct Sched {
    /// "random" | "pct" | "rr"
    pub kind: String,
    pub depth: usize,
    pub seed: u64,
    /// number of schedules (shuttle executions) run for the case
    pub iters: usize,
}

#[derive(Debug)]
pub struct ShuttleReport {
    /// panic message if the shuttle run failed (deadlock, step bound, panic inside a task)
    pub failure: Option<String>,
    pub executions: usize,
    pub trace_hash: u64,
    pub sched_points: u64,
}

/// Execute `f` under shuttle, `sched.iters` times, each under a schedule drawn by the seeded scheduler.
pub fn run<F>(sched: &Sched, stack_mb: usize, f: F) -> ShuttleReport
where
    F: Fn() + Send + Sync + 'static,
{
    let f = Arc::new(f);
    let f1 = f.clone();
    let rep = run_once(sched, stack_mb, move || f1());
    // shuttle's PCT scheduler asserts that the closure exercised some concurrency; a case that ends before
    // any thread is spawned (e.g. a fault at the very first item) is not a failure of the code under test:
    // it is re-run under the seeded random scheduler
    if sched.kind == "pct" && rep.failure.as_deref().map(|m| m.contains("did not exercise any concurrency")).unwrap_or(false) {
        let mut s2 = sched.clone();
        s2.kind = "random".into();
        return run_once(&s2, stack_mb, move || f());
    }
    rep
}

fn run_once<F>(sched: &Sched, stack_mb: usize, f: F) -> ShuttleReport
where
    F: Fn() + Send + Sync + 'static,
{
    let sched = sched.clone();
    let out: Arc<Mutex<Option<ShuttleReport>>> = Arc::new(Mutex::new(None));
    let out2 = out.clone();
    let h = std::thread::Builder::new()
        .name("shuttle-runner".into())
        .stack_size(16 << 20)
        .spawn(move || {
            let _g = verif_rt::enter_shuttle();
            crate::core::world::clear_first_panic();
            verif_rt::trace_reset();
            let mut cfg = shuttle::Config::new();
            cfg.stack_size = stack_mb << 20;
            cfg.failure_persistence = shuttle::FailurePersistence::None;
            cfg.max_steps = shuttle::MaxSteps::FailAfter(20_000_000);
            cfg.silence_warnings = true;
            let sp0 = verif_rt::SCHED_POINTS.load(std::sync::atomic::Ordering::Relaxed);
            let iters = sched.iters.max(1);
            // SIM_NDCHECK=1 (determinism runs): wrap the scheduler in shuttle's uncontrolled-nondeterminism
            // check, which replays every schedule and fails if the sets of runnable tasks differ
            let ndcheck = std::env::var_os("SIM_NDCHECK").is_some();
            let res = std::panic::catch_unwind(std::panic::AssertUnwindSafe(|| match (ndcheck, sched.kind.as_str()) {
                (true, "pct") => shuttle::Runner::new(shuttle::scheduler::UncontrolledNondeterminismCheckScheduler::new(shuttle::scheduler::PctScheduler::new_from_seed(sched.seed, sched.depth.max(1), iters)), cfg).run(f),
                (true, "rr") => shuttle::Runner::new(shuttle::scheduler::UncontrolledNondeterminismCheckScheduler::new(shuttle::scheduler::RoundRobinScheduler::new(1)), cfg).run(f),
                (true, _) => shuttle::Runner::new(shuttle::scheduler::UncontrolledNondeterminismCheckScheduler::new(shuttle::scheduler::RandomScheduler::new_from_seed(sched.seed, iters)), cfg).run(f),
                (false, k) => match k {
                "pct" => shuttle::Runner::new(shuttle::scheduler::PctScheduler::new_from_seed(sched.seed, sched.depth.max(1), iters), cfg).run(f),
                "rr" => shuttle::Runner::new(shuttle::scheduler::RoundRobinScheduler::new(1), cfg).run(f),
                _ => shuttle::Runner::new(shuttle::scheduler::RandomScheduler::new_from_seed(sched.seed, iters), cfg).run(f),
                },
            }));
            let (th, _tl) = verif_rt::trace_get();
            let sp1 = verif_rt::SCHED_POINTS.load(std::sync::atomic::Ordering::Relaxed);
            let rep = match res {
                Ok(n) => ShuttleReport { failure: None, executions: n, trace_hash: th, sched_points: sp1 - sp0 },
                Err(p) => ShuttleReport {
                    // the first panic of the execution is the cause; later ones are fallout of the unwinding
                    failure: Some({
                        let first = crate::core::world::first_panic();
                        if first.is_empty() {
                            crate::core::world::panic_msg(&*p)
                        } else {
                            first
                        }
                    }),
                    executions: 0,
                    trace_hash: th,
                    sched_points: sp1 - sp0,
                },
            };
            *out2.lock().unwrap() = Some(rep);
        })
        .expect("spawn shuttle runner thread");
    let _ = h.join();
    let r = out.lock().unwrap().take();
    r.unwrap_or(ShuttleReport { failure: Some("shuttle runner thread died".into()), executions: 0, trace_hash: 0, sched_points: 0 })
}
