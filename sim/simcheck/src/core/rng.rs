//! splitmix64 -> xoshiro256**: the only source of randomness in the simulator.

#[derive(Clone, Debug)]
pub struct Rng {
    s: [u64; 4],
}

pub fn splitmix64(x: &mut u64) -> u64 {
    *x = x.wrapping_add(0x9E3779B97F4A7C15);
    let mut z = *x;
    z = (z ^ (z >> 30)).wrapping_mul(0xBF58476D1CE4E5B9);
    z = (z ^ (z >> 27)).wrapping_mul(0x94D049BB133111EB);
    z ^ (z >> 31)
}

/// Mix several integers into one seed.
pub fn mix(parts: &[u64]) -> u64 {
    let mut h = 0x243F6A8885A308D3u64;
    for &p in parts {
        let mut x = h ^ p;
        h = splitmix64(&mut x) ^ h.rotate_left(23);
    }
    h
}

pub fn hash_str(s: &str) -> u64 {
    let mut h = 0xcbf29ce484222325u64;
    for b in s.bytes() {
        h = (h ^ b as u64).wrapping_mul(0x100000001b3);
    }
    h
}

impl Rng {
    pub fn new(seed: u64) -> Self {
        let mut x = seed;
        let s = [splitmix64(&mut x), splitmix64(&mut x), splitmix64(&mut x), splitmix64(&mut x)];
        Rng { s }
    }
    #[inline]
    pub fn next_u64(&mut self) -> u64 {
        let r = self.s[1].wrapping_mul(5).rotate_left(7).wrapping_mul(9);
        let t = self.s[1] << 17;
        self.s[2] ^= self.s[0];
        self.s[3] ^= self.s[1];
        self.s[1] ^= self.s[2];
        self.s[0] ^= self.s[3];
        self.s[2] ^= t;
        self.s[3] = self.s[3].rotate_left(45);
        r
    }
    pub fn next_u128(&mut self) -> u128 {
        ((self.next_u64() as u128) << 64) | self.next_u64() as u128
    }
    /// Uniform in 0..n (n > 0).
    #[inline]
    pub fn below(&mut self, n: u64) -> u64 {
        debug_assert!(n > 0);
        ((self.next_u64() as u128 * n as u128) >> 64) as u64
    }
    pub fn usize_below(&mut self, n: usize) -> usize {
        self.below(n as u64) as usize
    }
    /// Uniform in lo..=hi.
    pub fn range(&mut self, lo: u64, hi: u64) -> u64 {
        if hi <= lo {
            return lo;
        }
        let span = hi - lo;
        if span == u64::MAX {
            return self.next_u64();
        }
        lo + self.below(span + 1)
    }
    pub fn urange(&mut self, lo: usize, hi: usize) -> usize {
        self.range(lo as u64, hi as u64) as usize
    }
    /// True with probability num/den.
    pub fn chance(&mut self, num: u64, den: u64) -> bool {
        self.below(den) < num
    }
    pub fn pick<'a, T>(&mut self, xs: &'a [T]) -> &'a T {
        &xs[self.usize_below(xs.len())]
    }
    /// Index drawn with the given weights.
    pub fn weighted(&mut self, w: &[u32]) -> usize {
        let tot: u64 = w.iter().map(|&x| x as u64).sum();
        let mut r = self.below(tot.max(1));
        for (i, &x) in w.iter().enumerate() {
            if r < x as u64 {
                return i;
            }
            r -= x as u64;
        }
        w.len() - 1
    }
    pub fn fork(&mut self) -> Rng {
        Rng::new(self.next_u64())
    }
    /// A size biased to small values and to boundaries around multiples of `q`.
    pub fn size_biased(&mut self, max: usize, q: usize) -> usize {
        let r = match self.below(10) {
            0 => 0,
            1 => 1,
            2..=4 => {
                // around a multiple of q
                let k = self.urange(0, (max / q.max(1)).min(8));
                let base = k * q;
                let d = self.urange(0, 2);
                (base + d).saturating_sub(1)
            }
            5..=7 => self.urange(0, max.min(4 * q.max(1))),
            _ => self.urange(0, max),
        };
        r.min(max)
    }
}
