//! Worker process: generates and executes cases, shrinks failures, writes replay files.

use super::model::*;
use super::rng::{hash_str, mix, Rng};
use super::world::*;
use serde::{Deserialize, Serialize};
use std::io::Write;
use std::time::Instant;

#[derive(Clone, Debug, Serialize, Deserialize)]
pub struct WorkerArgs {
    pub world: String,
    pub prop: String,
    pub tier: Tier,
    pub verif_seed: u64,
    pub runs: u64,
    pub stride: u64,
    pub offset: u64,
    pub profile: String,
    pub replay_dir: String,
    pub max_seconds: u64,
    pub samples: u64,
    /// execute only this run (used to re-locate an abort), with the op journal at this path
    pub journal: Option<String>,
    /// signatures listed as known findings: reported, not minimised
    #[serde(default)]
    pub known_sigs: Vec<String>,
}

#[derive(Clone, Debug, Serialize, Deserialize)]
pub struct RunLine {
    pub run: u64,
    pub outcome: Outcome,
    pub replay: Option<String>,
    pub sample: Option<serde_json::Value>,
}

pub fn case_seed(verif_seed: u64, world: &str, prop: &str, run: u64) -> u64 {
    mix(&[verif_seed, hash_str(world), hash_str(prop), run])
}

/// Execute under catch_unwind; an escaping panic becomes a violation of class `panic`.
pub fn exec_guarded<W: World>(prop: &str, case: &W::Case) -> Outcome {
    clear_last_panic();
    set_op("");
    match std::panic::catch_unwind(std::panic::AssertUnwindSafe(|| W::execute(prop, case))) {
        Ok(o) => o,
        Err(p) => {
            let msg = panic_msg(&*p);
            let lp = last_panic();
            let mut o = Outcome::default();
            o.nontrivial = true;
            o.violation = Some(Violation::new(
                "panic",
                format!("{}:panic:{}:{}", W::NAME, cur_op(), normalise_msg(&msg)),
                format!("unexpected panic: {msg} [{lp}]"),
                "no panic (the operation is within its documented domain)",
            ));
            o
        }
    }
}

pub fn shrink_case<W: World>(prop: &str, case: &W::Case, v: &Violation) -> (W::Case, Violation, u64) {
    let start = Instant::now();
    let mut cur = case.clone();
    let mut curv = v.clone();
    let mut tried = 0u64;
    'outer: loop {
        for cand in W::shrink(prop, &cur) {
            if tried >= 3000 || start.elapsed().as_secs() > 90 {
                break 'outer;
            }
            tried += 1;
            let o = exec_guarded::<W>(prop, &cand);
            if let Some(nv) = o.violation {
                if nv.signature == v.signature && nv.class == v.class {
                    cur = cand;
                    curv = nv;
                    continue 'outer;
                }
            }
        }
        break;
    }
    (cur, curv, tried)
}

fn json_size(v: &serde_json::Value) -> usize {
    serde_json::to_string(v).map(|s| s.len()).unwrap_or(0)
}

pub fn write_replay<W: World>(args: &WorkerArgs, run: u64, case: &W::Case, v: &Violation, from: serde_json::Value) -> Option<String> {
    let rf = ReplayFile {
        format: 1,
        property: args.prop.clone(),
        world: W::NAME.to_string(),
        verif_seed: args.verif_seed,
        run,
        tier: args.tier,
        profile: args.profile.clone(),
        class: v.class.clone(),
        signature: v.signature.clone(),
        observed: v.observed.clone(),
        expected: v.expected.clone(),
        case: serde_json::to_value(case).ok()?,
        minimised_from: from,
    };
    let _ = std::fs::create_dir_all(&args.replay_dir);
    let path = format!(
        "{}/{}-{:x}-{}-{:08x}.json",
        args.replay_dir,
        args.prop,
        args.verif_seed,
        run,
        hash_str(&v.signature) as u32
    );
    std::fs::write(&path, serde_json::to_string_pretty(&rf).ok()?).ok()?;
    Some(path)
}

pub fn run_worker<W: World>(args: &WorkerArgs) {
    install_quiet_panic_hook();
    if let Some(j) = &args.journal {
        enable_journal(j);
    }
    let out = std::io::stdout();
    let start = Instant::now();
    let mut samples_left = if args.offset == 0 { args.samples } else { 0 };
    let mut seen_sigs: Vec<String> = Vec::new();
    let mut run = args.offset;
    while run < args.runs {
        if args.max_seconds > 0 && start.elapsed().as_secs() >= args.max_seconds {
            break;
        }
        let seed = case_seed(args.verif_seed, W::NAME, &args.prop, run);
        let mut rng = Rng::new(seed);
        let case = W::generate(&args.prop, args.tier, run, &mut rng);
        {
            let mut o = out.lock();
            let _ = writeln!(o, "S {run}");
            let _ = o.flush();
        }
        let outcome = exec_guarded::<W>(&args.prop, &case);
        let mut replay = None;
        if let Some(v) = &outcome.violation {
            if !seen_sigs.contains(&v.signature) {
                seen_sigs.push(v.signature.clone());
                let before = serde_json::to_value(&case).map(|c| json_size(&c)).unwrap_or(0);
                // no in-process minimisation for known findings, nor when re-locating a crash (a candidate may kill the process)
                let (small, sv, tried) = if args.known_sigs.contains(&v.signature) || args.journal.is_some() { (case.clone(), v.clone(), 0) } else { shrink_case::<W>(&args.prop, &case, v) };
                let after = serde_json::to_value(&small).map(|c| json_size(&c)).unwrap_or(0);
                replay = write_replay::<W>(
                    args,
                    run,
                    &small,
                    &sv,
                    serde_json::json!({"case_bytes_before": before, "case_bytes_after": after, "candidates_tried": tried}),
                );
            }
        }
        let sample = if samples_left > 0 && outcome.nontrivial {
            samples_left -= 1;
            serde_json::to_value(&case).ok()
        } else {
            None
        };
        let line = RunLine { run, outcome, replay, sample };
        {
            let mut o = out.lock();
            let _ = writeln!(o, "R {}", serde_json::to_string(&line).unwrap());
            let _ = o.flush();
        }
        run += args.stride.max(1);
        if args.journal.is_some() {
            break;
        }
    }
    let mut o = out.lock();
    let _ = writeln!(o, "E");
    let _ = o.flush();
}

/// Re-execute a replay file in this process. Returns the outcome.
pub fn replay_file<W: World>(rf: &ReplayFile) -> Result<Outcome, String> {
    install_quiet_panic_hook();
    let case: W::Case = serde_json::from_value(rf.case.clone()).map_err(|e| format!("bad case: {e}"))?;
    Ok(exec_guarded::<W>(&rf.property, &case))
}

/// Execute the case of a replay-format file and try to shrink it while the given signature persists
/// (used by the parent for aborting cases, one process per candidate).
pub fn shrink_candidates_json<W: World>(rf: &ReplayFile) -> Result<Vec<serde_json::Value>, String> {
    let case: W::Case = serde_json::from_value(rf.case.clone()).map_err(|e| format!("bad case: {e}"))?;
    Ok(W::shrink(&rf.property, &case).into_iter().filter_map(|c| serde_json::to_value(c).ok()).collect())
}

pub fn generate_json<W: World>(prop: &str, tier: Tier, verif_seed: u64, run: u64) -> serde_json::Value {
    let seed = case_seed(verif_seed, W::NAME, prop, run);
    let mut rng = Rng::new(seed);
    serde_json::to_value(W::generate(prop, tier, run, &mut rng)).unwrap()
}
