//! Parent process: spawns worker processes, aggregates their reports, classifies
//! violations against known_findings.json, confirms each new violation by replaying
//! its minimised case in a fresh process, and writes the evidence file.

use super::model::*;
use super::worker::{RunLine, WorkerArgs};
use serde::{Deserialize, Serialize};
use std::collections::{BTreeMap, BTreeSet, HashSet};
use std::io::{BufRead, BufReader};
use std::os::unix::process::ExitStatusExt;
use std::process::{Command, Stdio};
use std::sync::mpsc;
use std::time::{Duration, Instant};

#[derive(Clone, Debug)]
pub struct Batch {
    pub world: String,
    pub runs: u64,
    /// profile label -> binary path
    pub profile: String,
    pub bin: String,
    pub max_seconds: u64,
}

#[derive(Clone, Debug)]
pub struct ParentArgs {
    pub prop: String,
    pub tier: Tier,
    pub verif_seed: u64,
    pub workers: u64,
    pub batches: Vec<Batch>,
    pub evidence: String,
    pub known_findings: String,
    pub replay_dir: String,
    pub level: String,
    pub rule: String,
    pub assumptions: Vec<String>,
    pub components_real: Vec<String>,
    pub components_stubbed: Vec<String>,
    pub hang_secs: u64,
    /// fault kinds that must have fired at least once over the whole check (else harness error)
    pub must_fire: Vec<String>,
    pub extra: serde_json::Value,
}

#[derive(Clone, Debug, Serialize, Deserialize)]
pub struct KnownEntry {
    pub status: String,
    pub property: String,
    pub signature: String,
    pub what: String,
    #[serde(default)]
    pub commit: Option<String>,
    #[serde(default)]
    pub why_not_fixed: Option<String>,
}
#[derive(Clone, Debug, Serialize, Deserialize)]
pub struct KnownFile {
    pub format: u32,
    pub entries: Vec<KnownEntry>,
}

pub fn load_known(path: &str) -> Vec<KnownEntry> {
    match std::fs::read_to_string(path) {
        Ok(s) => serde_json::from_str::<KnownFile>(&s).map(|k| k.entries).unwrap_or_default(),
        Err(_) => Vec::new(),
    }
}

enum Msg {
    Line(usize, String),
    Eof(usize),
}

struct Child {
    proc: std::process::Child,
    args: WorkerArgs,
    bin: String,
    last_start: Option<u64>,
    last_done: Option<u64>,
    last_activity: Instant,
    finished: bool,
    done_marker: bool,
}

#[derive(Default)]
struct Agg {
    evaluations: u64,
    nontrivial: u64,
    buckets: BTreeSet<String>,
    steps: u64,
    checks: u64,
    faults: BTreeMap<String, u64>,
    probes: BTreeMap<String, u64>,
    traces: HashSet<u64>,
    scheduled_cases: u64,
    samples: Vec<serde_json::Value>,
    per_batch: BTreeMap<String, u64>,
    /// signature -> (violation, replay path, count, bin)
    violations: BTreeMap<String, (Violation, Option<String>, u64, String)>,
}

fn spawn_worker(bin: &str, args: &WorkerArgs, tx: &mpsc::Sender<Msg>, idx: usize, errlog: &str) -> std::io::Result<std::process::Child> {
    let errf = std::fs::OpenOptions::new().create(true).append(true).open(errlog)?;
    let mut proc = Command::new(bin)
        .arg("worker")
        .arg(serde_json::to_string(args).unwrap())
        .stdin(Stdio::null())
        .stdout(Stdio::piped())
        .stderr(Stdio::from(errf))
        .spawn()?;
    let stdout = proc.stdout.take().unwrap();
    let tx = tx.clone();
    std::thread::spawn(move || {
        let r = BufReader::new(stdout);
        for line in r.lines() {
            match line {
                Ok(l) => {
                    if tx.send(Msg::Line(idx, l)).is_err() {
                        return;
                    }
                }
                Err(_) => break,
            }
        }
        let _ = tx.send(Msg::Eof(idx));
    });
    Ok(proc)
}

/// Run a binary subcommand with a timeout; returns (exit code, signal, stdout).
pub fn run_sub(bin: &str, argv: &[&str], timeout: Duration) -> (Option<i32>, Option<i32>, String, bool) {
    let mut c = match Command::new(bin).args(argv).stdin(Stdio::null()).stdout(Stdio::piped()).stderr(Stdio::null()).spawn() {
        Ok(c) => c,
        Err(_) => return (None, None, String::new(), false),
    };
    let mut out = c.stdout.take().unwrap();
    let h = std::thread::spawn(move || {
        let mut s = String::new();
        let _ = std::io::Read::read_to_string(&mut out, &mut s);
        s
    });
    let start = Instant::now();
    let mut timed_out = false;
    let status = loop {
        match c.try_wait() {
            Ok(Some(st)) => break Some(st),
            Ok(None) => {
                if start.elapsed() > timeout {
                    let _ = c.kill();
                    timed_out = true;
                    break c.wait().ok();
                }
                std::thread::sleep(Duration::from_millis(5));
            }
            Err(_) => break None,
        }
    };
    let s = h.join().unwrap_or_default();
    match status {
        Some(st) => (st.code(), st.signal(), s, timed_out),
        None => (None, None, s, timed_out),
    }
}

fn tmp_path(dir: &str, tag: &str) -> String {
    let _ = std::fs::create_dir_all(format!("{dir}/.tmp"));
    format!("{dir}/.tmp/{tag}-{}.json", std::process::id())
}

/// A worker died (signal) or hung while executing `run`: locate the operation, minimise out of
/// process, and produce a replay file of class abort/hang.
fn handle_crash(pa: &ParentArgs, bin: &str, wargs: &WorkerArgs, run: u64, how: &str, hang: bool) -> (Violation, Option<String>) {
    let world = &wargs.world;
    let jpath = format!("{}/.tmp/journal-{}-{}", pa.replay_dir, std::process::id(), run);
    let _ = std::fs::create_dir_all(format!("{}/.tmp", pa.replay_dir));
    let mut a = wargs.clone();
    a.offset = run;
    a.runs = run + 1;
    a.stride = 1;
    a.journal = Some(jpath.clone());
    a.max_seconds = 0;
    let aj = serde_json::to_string(&a).unwrap();
    let (code, sig, rerun_out, timed_out) = run_sub(bin, &["worker", &aj], Duration::from_secs(pa.hang_secs));
    let op = std::fs::read_to_string(&jpath).unwrap_or_default();
    let _ = std::fs::remove_file(&jpath);
    let reproduced = if hang { timed_out } else { sig.is_some() || (code.is_some() && code != Some(0)) };
    let class = if hang { "proc_hang" } else { "proc_abort" };
    let signature = format!("{world}:{class}:{}", if op.is_empty() { "?" } else { &op });
    let v = Violation::new(
        class,
        signature,
        format!("worker process {how} while executing run {run} (operation `{op}`); isolated re-run: code={code:?} signal={sig:?} timed_out={timed_out}"),
        if hang { "the operation terminates within its step budget" } else { "normal return or unwinding panic, never a process abort / memory error" },
    );
    if !reproduced {
        // The isolated re-run (which does not minimise) survived: the worker died while minimising an
        // ordinary violation of this run (a shrink candidate killed the process). Report that violation, unminimised.
        for l in rerun_out.lines() {
            if let Some(j) = l.strip_prefix("R ") {
                if let Ok(rl) = serde_json::from_str::<RunLine>(j) {
                    if let Some(v2) = rl.outcome.violation {
                        return (v2, rl.replay);
                    }
                }
            }
        }
        return (
            Violation::new("harness", format!("{world}:unreproducible-{class}"), v.observed.clone(), "isolated re-run fails the same way"),
            None,
        );
    }
    // case JSON
    let (_, _, gen_out, _) = run_sub(
        bin,
        &["gen", world, &pa.prop, &serde_json::to_string(&pa.tier).unwrap().replace('"', ""), &pa.verif_seed.to_string(), &run.to_string()],
        Duration::from_secs(60),
    );
    let case: serde_json::Value = match serde_json::from_str(gen_out.trim()) {
        Ok(c) => c,
        Err(_) => return (v, None),
    };
    let mk = |case: &serde_json::Value, from: serde_json::Value| ReplayFile {
        format: 1,
        property: pa.prop.clone(),
        world: world.clone(),
        verif_seed: pa.verif_seed,
        run,
        tier: pa.tier,
        profile: wargs.profile.clone(),
        class: v.class.clone(),
        signature: v.signature.clone(),
        observed: v.observed.clone(),
        expected: v.expected.clone(),
        case: case.clone(),
        minimised_from: from,
    };
    // out-of-process shrinking (hangs are not minimised: each candidate would cost a timeout)
    let mut cur = case.clone();
    let mut tried = 0u64;
    if !hang {
        let start = Instant::now();
        'outer: loop {
            let tf = tmp_path(&pa.replay_dir, "shrink-cur");
            let _ = std::fs::write(&tf, serde_json::to_string(&mk(&cur, serde_json::Value::Null)).unwrap());
            let (_, _, cands, _) = run_sub(bin, &["shrink-candidates", &tf], Duration::from_secs(60));
            let _ = std::fs::remove_file(&tf);
            let cands: Vec<serde_json::Value> = serde_json::from_str(cands.trim()).unwrap_or_default();
            for cand in cands {
                if tried >= 400 || start.elapsed().as_secs() > 120 {
                    break 'outer;
                }
                tried += 1;
                let cf = tmp_path(&pa.replay_dir, "shrink-cand");
                let _ = std::fs::write(&cf, serde_json::to_string(&mk(&cand, serde_json::Value::Null)).unwrap());
                // memory errors need not be deterministic: a candidate is accepted only if it dies twice in a row
                let (c2, s2, _, t2) = run_sub(bin, &["replay-exec", &cf], Duration::from_secs(pa.hang_secs));
                let again = if !t2 && s2.is_some() && s2 == sig && c2.is_none() { run_sub(bin, &["replay-exec", &cf], Duration::from_secs(pa.hang_secs)).1 == sig } else { false };
                let _ = std::fs::remove_file(&cf);
                if again {
                    cur = cand;
                    continue 'outer;
                }
            }
            break;
        }
    }
    let rf = mk(
        &cur,
        serde_json::json!({"case_bytes_before": serde_json::to_string(&case).unwrap().len(), "case_bytes_after": serde_json::to_string(&cur).unwrap().len(), "candidates_tried": tried, "out_of_process": true}),
    );
    let path = format!("{}/{}-{:x}-{}-{}.json", pa.replay_dir, pa.prop, pa.verif_seed, run, class);
    let _ = std::fs::write(&path, serde_json::to_string_pretty(&rf).unwrap());
    if !hang && cur != case {
        // if the minimised case does not die in a fresh process, keep the original one
        let (c3, s3, _, _) = run_sub(bin, &["replay-exec", &path], Duration::from_secs(pa.hang_secs));
        if !(s3.is_some() || matches!(c3, Some(c) if c != 0 && c != 1)) {
            let rf = mk(&case, serde_json::json!({"minimisation": "dropped: the minimised case did not reproduce in a fresh process"}));
            let _ = std::fs::write(&path, serde_json::to_string_pretty(&rf).unwrap());
        }
    }
    (v, Some(path))
}

/// Replay a file in a fresh process. Returns Ok(true) if the recorded violation is reproduced.
pub fn confirm_replay(bin: &str, path: &str, hang_secs: u64) -> Result<bool, String> {
    let rf: ReplayFile = serde_json::from_str(&std::fs::read_to_string(path).map_err(|e| e.to_string())?).map_err(|e| e.to_string())?;
    let (code, sig, out, timed_out) = run_sub(bin, &["replay-exec", path], Duration::from_secs(hang_secs));
    match rf.class.as_str() {
        "proc_abort" => {
            let mut died = sig.is_some() || matches!(code, Some(c) if c != 0 && c != 1);
            let mut tries = 0;
            while !died && tries < 2 {
                let (c, s, _, _) = run_sub(bin, &["replay-exec", path], Duration::from_secs(hang_secs));
                died = s.is_some() || matches!(c, Some(c) if c != 0 && c != 1);
                tries += 1;
            }
            Ok(died)
        }
        "proc_hang" => Ok(timed_out),
        _ => {
            if timed_out {
                return Err("replay timed out".into());
            }
            let want = format!("REPRODUCED signature={}", rf.signature);
            Ok(code == Some(1) && out.lines().any(|l| l.trim() == want))
        }
    }
}

pub fn run_parent(pa: &ParentArgs) -> i32 {
    let t0 = Instant::now();
    let known = load_known(&pa.known_findings);
    let mut agg = Agg::default();
    let mut harness_errors: Vec<String> = Vec::new();
    let logdir = format!("{}/.logs", pa.replay_dir);
    let _ = std::fs::create_dir_all(&logdir);
    let errlog = format!("{logdir}/{}-{}.stderr", pa.prop, serde_json::to_string(&pa.tier).unwrap().replace('"', ""));
    let _ = std::fs::remove_file(&errlog);

    for batch in &pa.batches {
        let (tx, rx) = mpsc::channel::<Msg>();
        let nworkers = pa.workers.min(batch.runs.max(1)).max(1);
        let mut children: Vec<Child> = Vec::new();
        for k in 0..nworkers {
            let wargs = WorkerArgs {
                world: batch.world.clone(),
                prop: pa.prop.clone(),
                tier: pa.tier,
                verif_seed: pa.verif_seed,
                runs: batch.runs,
                stride: nworkers,
                offset: k,
                profile: batch.profile.clone(),
                replay_dir: pa.replay_dir.clone(),
                max_seconds: batch.max_seconds,
                samples: if agg.samples.len() < 4 { 3 } else { 0 },
                journal: None,
                known_sigs: known.iter().filter(|k| k.status == "known" && k.property == pa.prop).map(|k| k.signature.clone()).collect(),
            };
            match spawn_worker(&batch.bin, &wargs, &tx, children.len(), &errlog) {
                Ok(proc) => children.push(Child {
                    proc,
                    args: wargs,
                    bin: batch.bin.clone(),
                    last_start: None,
                    last_done: None,
                    last_activity: Instant::now(),
                    finished: false,
                    done_marker: false,
                }),
                Err(e) => harness_errors.push(format!("cannot spawn worker {}: {e}", batch.bin)),
            }
        }
        let mut crash_budget = 8u32;
        loop {
            if children.iter().all(|c| c.finished) {
                break;
            }
            match rx.recv_timeout(Duration::from_millis(500)) {
                Ok(Msg::Line(i, l)) => {
                    let c = &mut children[i];
                    c.last_activity = Instant::now();
                    if let Some(r) = l.strip_prefix("S ") {
                        c.last_start = r.trim().parse().ok();
                    } else if l == "E" {
                        c.done_marker = true;
                    } else if let Some(j) = l.strip_prefix("R ") {
                        match serde_json::from_str::<RunLine>(j) {
                            Ok(rl) => {
                                c.last_done = Some(rl.run);
                                agg.evaluations += 1;
                                *agg.per_batch.entry(format!("{}/{}", batch.world, batch.profile)).or_insert(0) += 1;
                                let o = rl.outcome;
                                if o.nontrivial {
                                    agg.nontrivial += 1;
                                    for b in o.buckets {
                                        agg.buckets.insert(b);
                                    }
                                }
                                agg.steps += o.steps;
                                agg.checks += o.checks;
                                for (k, v) in o.faults {
                                    *agg.faults.entry(k).or_insert(0) += v;
                                }
                                for (k, v) in o.probes {
                                    *agg.probes.entry(k).or_insert(0) += v;
                                }
                                if let Some(t) = o.trace {
                                    agg.traces.insert(t);
                                    agg.scheduled_cases += 1;
                                }
                                if let Some(s) = rl.sample {
                                    if agg.samples.len() < 5 {
                                        agg.samples.push(s);
                                    }
                                }
                                if let Some(v) = o.violation {
                                    let e = agg.violations.entry(v.signature.clone()).or_insert((v.clone(), None, 0, batch.bin.clone()));
                                    e.2 += 1;
                                    if e.1.is_none() {
                                        e.1 = rl.replay;
                                    }
                                }
                            }
                            Err(e) => harness_errors.push(format!("unparsable worker line: {e}")),
                        }
                    }
                }
                Ok(Msg::Eof(i)) => {
                    let status = children[i].proc.wait().ok();
                    let c = &mut children[i];
                    let clean = c.done_marker && status.map(|s| s.success()).unwrap_or(false);
                    if clean {
                        c.finished = true;
                        continue;
                    }
                    // died mid-run
                    let run = match c.last_start {
                        Some(r) if c.last_done != Some(r) => r,
                        _ => {
                            harness_errors.push(format!("worker exited abnormally outside a case: {status:?}"));
                            c.finished = true;
                            continue;
                        }
                    };
                    let how = format!("died ({status:?})");
                    let (v, path) = handle_crash(pa, &c.bin.clone(), &c.args.clone(), run, &how, false);
                    agg.evaluations += 1;
                    if v.class == "harness" {
                        harness_errors.push(format!("{}: {}", v.signature, v.observed));
                    } else {
                        let e = agg.violations.entry(v.signature.clone()).or_insert((v.clone(), None, 0, c.bin.clone()));
                        e.2 += 1;
                        if e.1.is_none() {
                            e.1 = path;
                        }
                    }
                    // restart after the crashing run
                    crash_budget = crash_budget.saturating_sub(1);
                    let next = run + c.args.stride;
                    if next < c.args.runs && crash_budget > 0 {
                        let mut a = c.args.clone();
                        a.offset = next;
                        a.samples = 0;
                        match spawn_worker(&c.bin, &a, &tx, i, &errlog) {
                            Ok(p) => {
                                c.proc = p;
                                c.args = a;
                                c.last_start = None;
                                c.last_done = None;
                                c.done_marker = false;
                                c.last_activity = Instant::now();
                            }
                            Err(e) => {
                                harness_errors.push(format!("cannot respawn worker: {e}"));
                                c.finished = true;
                            }
                        }
                    } else {
                        c.finished = true;
                    }
                }
                Err(mpsc::RecvTimeoutError::Timeout) => {
                    for c in children.iter_mut() {
                        if !c.finished && c.last_activity.elapsed().as_secs() > pa.hang_secs {
                            let _ = c.proc.kill();
                            // Eof will follow; mark as hang now
                            if let Some(run) = c.last_start {
                                if c.last_done != Some(run) {
                                    let (v, path) = handle_crash(pa, &c.bin.clone(), &c.args.clone(), run, "made no progress", true);
                                    if v.class == "harness" {
                                        harness_errors.push(format!("{}: {}", v.signature, v.observed));
                                    } else {
                                        let e = agg.violations.entry(v.signature.clone()).or_insert((v.clone(), None, 0, c.bin.clone()));
                                        e.2 += 1;
                                        if e.1.is_none() {
                                            e.1 = path;
                                        }
                                    }
                                }
                            }
                            c.done_marker = true; // suppress the crash path on Eof
                            c.last_done = c.last_start;
                            c.finished = true;
                        }
                    }
                }
                Err(mpsc::RecvTimeoutError::Disconnected) => break,
            }
        }
        for c in children.iter_mut() {
            let _ = c.proc.kill();
            let _ = c.proc.wait();
        }
    }

    // classify violations
    let mut exit = 0;
    let mut known_hit: Vec<String> = Vec::new();
    let mut reported = 0;
    let mut new_violations = 0i64;
    let mut lines: Vec<String> = Vec::new();
    for (sig, (v, path, count, bin)) in &agg.violations {
        if let Some(k) = known.iter().find(|k| k.status == "known" && k.property == pa.prop && &k.signature == sig) {
            lines.push(format!("KNOWN-FINDING: property={} {} — {} ({} cases)", pa.prop, sig, k.what, count));
            known_hit.push(sig.clone());
            continue;
        }
        new_violations += 1;
        let path = match path {
            Some(p) => p.clone(),
            None => {
                harness_errors.push(format!("violation {sig} has no replay file"));
                continue;
            }
        };
        match confirm_replay(bin, &path, pa.hang_secs) {
            Ok(true) => {
                if reported < 5 {
                    lines.push(format!("VIOLATION property={} replay={}", pa.prop, path));
                    lines.push(format!("  class={} signature={} cases={}", v.class, sig, count));
                    lines.push(format!("  observed: {}", v.observed));
                    lines.push(format!("  expected: {}", v.expected));
                    reported += 1;
                }
                exit = 1;
            }
            Ok(false) => harness_errors.push(format!("replay of {path} did not reproduce {sig}")),
            Err(e) => harness_errors.push(format!("replay of {path} failed: {e}")),
        }
    }
    for m in &pa.must_fire {
        if agg.faults.get(m).copied().unwrap_or(0) == 0 {
            harness_errors.push(format!("configured fault kind `{m}` never fired in this check"));
        }
    }
    if agg.evaluations == 0 {
        harness_errors.push("no case was executed".into());
    }

    let wall = t0.elapsed().as_secs_f64();
    let tier_s = serde_json::to_string(&pa.tier).unwrap().replace('"', "");
    let ev = serde_json::json!({
        "property_id": pa.prop,
        "tier": tier_s,
        "seed": pa.verif_seed,
        "level": pa.level,
        "coverage": {
            "evaluations": agg.evaluations,
            "distinct_nontrivial": agg.buckets.len(),
            "rule": pa.rule,
            "samples": agg.samples,
            "nontrivial_cases": agg.nontrivial,
            "runs_per_hour": if wall > 0.0 { (agg.evaluations as f64 / wall * 3600.0) as u64 } else { 0 },
            "seeds_per_hour": if wall > 0.0 { (agg.evaluations as f64 / wall * 3600.0) as u64 } else { 0 },
            "seeds_note": "one case = one derived seed mix(VERIF_SEED, world, property, run); replaying a seed reproduces the execution exactly",
            "steps_total": agg.steps,
            "simulated_time_note": "sux-rs has no clock or timer; simulated time is a step counter (operations executed, lender items delivered, scheduling points crossed)",
            "oracle_checks": agg.checks,
            "faults_fired": agg.faults,
            "probes": agg.probes,
            "interleavings_distinct": agg.traces.len(),
            "scheduled_cases": agg.scheduled_cases,
            "per_batch": agg.per_batch,
            "buckets_sample": agg.buckets.iter().take(40).collect::<Vec<_>>(),
            "components_real": pa.components_real,
            "components_stubbed": pa.components_stubbed,
            "known_findings_hit": known_hit,
            "harness_errors": harness_errors,
            "workers": pa.workers,
            "extra": pa.extra,
            "exhaustive": false
        },
        "assumptions": pa.assumptions,
        "wall_s": wall,
        "violations": new_violations
    });
    if let Some(dir) = std::path::Path::new(&pa.evidence).parent() {
        let _ = std::fs::create_dir_all(dir);
    }
    if let Err(e) = std::fs::write(&pa.evidence, serde_json::to_string_pretty(&ev).unwrap()) {
        harness_errors.push(format!("cannot write evidence: {e}"));
    }
    for l in &lines {
        println!("{l}");
    }
    println!(
        "{} {}: {} cases, {} distinct buckets, {} steps, {} interleavings, faults {:?}, {:.1}s",
        pa.prop,
        tier_s,
        agg.evaluations,
        agg.buckets.len(),
        agg.steps,
        agg.traces.len(),
        agg.faults,
        wall
    );
    if !harness_errors.is_empty() {
        for h in &harness_errors {
            eprintln!("HARNESS-ERROR {h}");
        }
        if exit == 0 {
            exit = 2;
        }
    }
    exit
}
