use serde::{Deserialize, Serialize};
use std::collections::BTreeMap;

#[derive(Clone, Copy, Debug, PartialEq, Eq, Serialize, Deserialize)]
#[serde(rename_all = "lowercase")]
pub enum Tier {
    Quick,
    Thorough,
}

#[derive(Clone, Debug, Serialize, Deserialize, PartialEq, Eq)]
pub struct Violation {
    /// oracle clause that failed (violation class)
    pub class: String,
    /// operation kind + precondition class; what known_findings.json matches on
    pub signature: String,
    pub observed: String,
    pub expected: String,
}

impl Violation {
    pub fn new(class: &str, signature: impl Into<String>, observed: impl Into<String>, expected: impl Into<String>) -> Self {
        let clip = |s: String| if s.len() > 600 { format!("{}…", &s[..s.char_indices().take_while(|(i, _)| *i < 600).last().map(|(i, c)| i + c.len_utf8()).unwrap_or(0)]) } else { s };
        Violation { class: class.to_string(), signature: signature.into(), observed: clip(observed.into()), expected: clip(expected.into()) }
    }
}

/// What one executed case reports back.
#[derive(Clone, Debug, Default, Serialize, Deserialize)]
pub struct Outcome {
    pub violation: Option<Violation>,
    /// coverage buckets reached by this case (see DESIGN 2.8)
    pub buckets: Vec<String>,
    /// false for cases with no operations / an empty structure
    pub nontrivial: bool,
    /// simulated time: steps (operations executed, items delivered, scheduling points crossed)
    pub steps: u64,
    /// fault kind -> number of times it actually took effect
    pub faults: BTreeMap<String, u64>,
    /// evidence-only named counters
    pub probes: BTreeMap<String, u64>,
    /// hash of the (task, sync-op) sequence for scheduled cases
    pub trace: Option<u64>,
    /// number of oracle comparisons made
    pub checks: u64,
}

impl Outcome {
    pub fn fault(&mut self, kind: &str) {
        *self.faults.entry(kind.to_string()).or_insert(0) += 1;
    }
    pub fn fault_n(&mut self, kind: &str, n: u64) {
        if n > 0 {
            *self.faults.entry(kind.to_string()).or_insert(0) += n;
        }
    }
    pub fn probe(&mut self, name: &str, n: u64) {
        if n > 0 {
            *self.probes.entry(name.to_string()).or_insert(0) += n;
        }
    }
    pub fn bucket(&mut self, b: impl Into<String>) {
        let b = b.into();
        if !self.buckets.contains(&b) {
            self.buckets.push(b);
        }
    }
    pub fn fail(&mut self, v: Violation) {
        if self.violation.is_none() {
            self.violation = Some(v);
        }
    }
}

#[derive(Clone, Debug, Serialize, Deserialize)]
pub struct ReplayFile {
    pub format: u32,
    pub property: String,
    pub world: String,
    pub verif_seed: u64,
    pub run: u64,
    pub tier: Tier,
    pub profile: String,
    pub class: String,
    pub signature: String,
    pub observed: String,
    pub expected: String,
    pub case: serde_json::Value,
    pub minimised_from: serde_json::Value,
}
