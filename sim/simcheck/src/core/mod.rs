pub mod model;
pub mod parent;
pub mod rng;
pub mod worker;
pub mod world;
