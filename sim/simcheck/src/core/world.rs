use super::model::{Outcome, Tier};
use super::rng::Rng;
use serde::{de::DeserializeOwned, Serialize};
use std::cell::RefCell;

/// A simulated world: a generator of explicit cases, an interpreter that runs a
/// case against the real code next to a reference model, and a shrinker.
pub trait World {
    type Case: Serialize + DeserializeOwned + Clone;
    const NAME: &'static str;
    /// Draw a case. Everything random in a run is decided here, before execution.
    fn generate(prop: &str, tier: Tier, run: u64, rng: &mut Rng) -> Self::Case;
    /// Interpret a case. Never draws random numbers, never reads a clock.
    fn execute(prop: &str, case: &Self::Case) -> Outcome;
    /// Simpler variants of a case, most aggressive first.
    fn shrink(prop: &str, case: &Self::Case) -> Vec<Self::Case>;
}

static JOURNAL: std::sync::Mutex<Option<std::fs::File>> = std::sync::Mutex::new(None);
static FIRST_PANIC: std::sync::Mutex<String> = std::sync::Mutex::new(String::new());
static CUR_OP_GLOBAL: std::sync::Mutex<String> = std::sync::Mutex::new(String::new());

thread_local! {
    static CUR_OP: RefCell<String> = const { RefCell::new(String::new()) };
    static LAST_PANIC: RefCell<String> = const { RefCell::new(String::new()) };
}

/// Label of the operation about to be executed (used in the signature of escaping panics and aborts).
pub fn set_op(label: &str) {
    CUR_OP.with(|c| {
        let mut c = c.borrow_mut();
        c.clear();
        c.push_str(label);
    });
    if let Ok(mut g) = CUR_OP_GLOBAL.lock() {
        g.clear();
        g.push_str(label);
    }
    {
        let mut j = JOURNAL.lock().unwrap_or_else(|e| e.into_inner());
        if let Some(f) = j.as_mut() {
            use std::io::{Seek, SeekFrom, Write};
            let _ = f.seek(SeekFrom::Start(0));
            let _ = f.set_len(0);
            let _ = f.write_all(label.as_bytes());
            let _ = f.flush();
        }
    }
}
pub fn cur_op() -> String {
    let l = CUR_OP.with(|c| c.borrow().clone());
    if l.is_empty() {
        CUR_OP_GLOBAL.lock().map(|g| g.clone()).unwrap_or_default()
    } else {
        l
    }
}
pub fn enable_journal(path: &str) {
    if let Ok(f) = std::fs::OpenOptions::new().create(true).write(true).truncate(true).open(path) {
        *JOURNAL.lock().unwrap_or_else(|e| e.into_inner()) = Some(f);
    }
}

/// Install a panic hook that records the message instead of printing it.
pub fn install_quiet_panic_hook() {
    std::panic::set_hook(Box::new(|info| {
        let msg = if let Some(s) = info.payload().downcast_ref::<&str>() {
            s.to_string()
        } else if let Some(s) = info.payload().downcast_ref::<String>() {
            s.clone()
        } else {
            "<non-string panic>".to_string()
        };
        let loc = info.location().map(|l| format!("{}:{}", l.file(), l.line())).unwrap_or_default();
        if std::env::var_os("SIM_VERBOSE_PANIC").is_some() {
            eprintln!("PANIC: {msg} @ {loc}");
        }
        if let Ok(mut f) = FIRST_PANIC.lock() {
            if f.is_empty() {
                *f = format!("{msg} @ {loc}");
            }
        }
        LAST_PANIC.with(|p| *p.borrow_mut() = format!("{msg} @ {loc}"));
    }));
}
pub fn last_panic() -> String {
    LAST_PANIC.with(|p| p.borrow().clone())
}
pub fn clear_last_panic() {
    LAST_PANIC.with(|p| p.borrow_mut().clear());
    if let Ok(mut f) = FIRST_PANIC.lock() {
        f.clear();
    }
}
/// First panic (any thread) since the last `clear_first_panic`.
pub fn first_panic() -> String {
    FIRST_PANIC.lock().map(|f| f.clone()).unwrap_or_default()
}
pub fn clear_first_panic() {
    if let Ok(mut f) = FIRST_PANIC.lock() {
        f.clear();
    }
}

/// Message of a caught panic payload.
pub fn panic_msg(p: &(dyn std::any::Any + Send)) -> String {
    if let Some(s) = p.downcast_ref::<&str>() {
        s.to_string()
    } else if let Some(s) = p.downcast_ref::<String>() {
        s.clone()
    } else {
        "<non-string panic>".to_string()
    }
}

/// Run `f`, expecting it to panic by unwinding. Ok(msg) if it panicked.
pub fn expect_panic<R>(f: impl FnOnce() -> R) -> Result<String, R> {
    match std::panic::catch_unwind(std::panic::AssertUnwindSafe(f)) {
        Ok(r) => Err(r),
        Err(p) => Ok(panic_msg(&*p)),
    }
}

/// Reduce a panic message to a stable class: strip numbers so that sizes and indices do not leak into signatures.
pub fn normalise_msg(m: &str) -> String {
    let first = m.lines().next().unwrap_or("");
    let mut out = String::new();
    let mut last_hash = false;
    for ch in first.chars() {
        if ch.is_ascii_digit() {
            if !last_hash {
                out.push('#');
                last_hash = true;
            }
        } else {
            out.push(ch);
            last_hash = false;
        }
    }
    if out.len() > 120 {
        let mut end = 120;
        while !out.is_char_boundary(end) {
            end -= 1;
        }
        out.truncate(end);
    }
    out
}

static LAST_PROGRESS: std::sync::Mutex<Option<std::time::Instant>> = std::sync::Mutex::new(None);

/// Tell the parent that a long case is still making progress (at most one line per second). A case
/// that hangs inside one operation stops calling this, so the hang detector keeps working.
pub fn progress() {
    let mut g = LAST_PROGRESS.lock().unwrap_or_else(|e| e.into_inner());
    let now = std::time::Instant::now();
    if g.map(|t| now.duration_since(t).as_millis() >= 1000).unwrap_or(true) {
        *g = Some(now);
        use std::io::Write;
        let out = std::io::stdout();
        let mut o = out.lock();
        let _ = writeln!(o, "P");
        let _ = o.flush();
    }
}
