//! In-memory, fault-plan driven stand-in for `std::fs::File`, used by the
//! `cfg(sux_verif)` shadow of `std::fs` in `sig_store.rs`.
//!
//! The simulator owns one global disk (a worker process runs one case at a
//! time). With no plan installed, or in pass-through mode, the file behaves like
//! an ordinary file (in memory, or a real one).

use std::io::{self, Read, Seek, SeekFrom, Write};
use std::path::Path;
use std::sync::Mutex;

#[derive(Clone, Debug, Default)]
pub struct DiskPlan {
    /// Real files instead of memory (faults still apply).
    pub passthrough: bool,
    /// A `write` delivers at most this many bytes (legal short write).
    pub short_write_max: Option<usize>,
    /// A `read` delivers at most this many bytes (legal short read).
    pub short_read_max: Option<usize>,
    /// Every k-th read/write call returns `Interrupted` first (legal).
    pub eintr_every: Option<u64>,
    /// Total bytes that can be written before `write` fails with "no space left" (hard fault).
    pub write_budget: Option<u64>,
    /// Total bytes that can be read before `read` fails with EIO (hard fault).
    pub read_budget: Option<u64>,
    /// The k-th (0-based) open fails (hard fault).
    pub open_fail_at: Option<u64>,
    /// The k-th (0-based) seek fails (hard fault).
    pub seek_fail_at: Option<u64>,
}

#[derive(Clone, Debug, Default)]
pub struct DiskStats {
    pub opens: u64,
    pub writes: u64,
    pub reads: u64,
    pub seeks: u64,
    pub set_lens: u64,
    pub bytes_written: u64,
    pub bytes_read: u64,
    pub short_writes: u64,
    pub short_reads: u64,
    pub eintr: u64,
    pub enospc: u64,
    pub eio: u64,
    pub open_failed: u64,
    pub seek_failed: u64,
}

#[derive(Default)]
struct Disk {
    plan: DiskPlan,
    stats: DiskStats,
    calls: u64,
}

static DISK: Mutex<Option<Disk>> = Mutex::new(None);

fn with_disk<R>(f: impl FnOnce(&mut Disk) -> R) -> R {
    let mut g = DISK.lock().unwrap_or_else(|e| e.into_inner());
    if g.is_none() {
        *g = Some(Disk::default());
    }
    f(g.as_mut().unwrap())
}

/// Install a plan and reset the statistics.
pub fn install(plan: DiskPlan) {
    with_disk(|d| {
        d.plan = plan;
        d.stats = DiskStats::default();
        d.calls = 0;
    });
}

/// Remove the plan (plain in-memory files), returning the statistics.
pub fn uninstall() -> DiskStats {
    with_disk(|d| {
        d.plan = DiskPlan::default();
        std::mem::take(&mut d.stats)
    })
}

pub fn stats() -> DiskStats {
    with_disk(|d| d.stats.clone())
}

/// Switch off the hard faults (budgets, open/seek failures), keeping the legal behaviours.
pub fn heal() {
    with_disk(|d| {
        d.plan.write_budget = None;
        d.plan.read_budget = None;
        d.plan.open_fail_at = None;
        d.plan.seek_fail_at = None;
    });
}

#[derive(Debug)]
enum Inner {
    Mem { data: Mutex<Vec<u8>>, pos: u64 },
    Real(std::fs::File),
}

#[derive(Debug)]
pub struct File {
    inner: Inner,
}

#[derive(Clone, Debug, Default)]
pub struct OpenOptions {
    read: bool,
    write: bool,
    create: bool,
    truncate: bool,
    append: bool,
    create_new: bool,
}

impl OpenOptions {
    pub fn new() -> Self {
        Self::default()
    }
    pub fn read(&mut self, v: bool) -> &mut Self {
        self.read = v;
        self
    }
    pub fn write(&mut self, v: bool) -> &mut Self {
        self.write = v;
        self
    }
    pub fn create(&mut self, v: bool) -> &mut Self {
        self.create = v;
        self
    }
    pub fn truncate(&mut self, v: bool) -> &mut Self {
        self.truncate = v;
        self
    }
    pub fn append(&mut self, v: bool) -> &mut Self {
        self.append = v;
        self
    }
    pub fn create_new(&mut self, v: bool) -> &mut Self {
        self.create_new = v;
        self
    }
    pub fn open<P: AsRef<Path>>(&self, path: P) -> io::Result<File> {
        let (fail, pass) = with_disk(|d| {
            let k = d.stats.opens;
            d.stats.opens += 1;
            let fail = d.plan.open_fail_at == Some(k);
            if fail {
                d.stats.open_failed += 1;
            }
            (fail, d.plan.passthrough)
        });
        if fail {
            return Err(io::Error::new(io::ErrorKind::PermissionDenied, "simfs: injected open failure"));
        }
        if pass {
            let f = std::fs::OpenOptions::new()
                .read(self.read)
                .write(self.write)
                .create(self.create)
                .truncate(self.truncate)
                .append(self.append)
                .create_new(self.create_new)
                .open(path)?;
            Ok(File { inner: Inner::Real(f) })
        } else {
            // Files are private to their handle: the store never reopens a path.
            Ok(File { inner: Inner::Mem { data: Mutex::new(Vec::new()), pos: 0 } })
        }
    }
}

impl File {
    pub fn options() -> OpenOptions {
        OpenOptions::new()
    }
    pub fn create<P: AsRef<Path>>(path: P) -> io::Result<File> {
        OpenOptions::new().write(true).create(true).truncate(true).open(path)
    }
    pub fn open<P: AsRef<Path>>(path: P) -> io::Result<File> {
        OpenOptions::new().read(true).open(path)
    }
    pub fn set_len(&self, size: u64) -> io::Result<()> {
        with_disk(|d| d.stats.set_lens += 1);
        match &self.inner {
            Inner::Real(f) => f.set_len(size),
            Inner::Mem { data, .. } => {
                data.lock().unwrap_or_else(|e| e.into_inner()).resize(size as usize, 0);
                Ok(())
            }
        }
    }
    pub fn sync_all(&self) -> io::Result<()> {
        Ok(())
    }
    pub fn sync_data(&self) -> io::Result<()> {
        Ok(())
    }
    /// Length of the file in bytes.
    pub fn sim_len(&self) -> u64 {
        match &self.inner {
            Inner::Real(f) => f.metadata().map(|m| m.len()).unwrap_or(0),
            Inner::Mem { data, .. } => data.lock().unwrap_or_else(|e| e.into_inner()).len() as u64,
        }
    }
}

enum Decision {
    Eintr,
    Fail(io::Error),
    Allow(usize),
}

fn decide_write(req: usize) -> Decision {
    with_disk(|d| {
        d.stats.writes += 1;
        d.calls += 1;
        if let Some(k) = d.plan.eintr_every {
            if k > 0 && d.calls % k == 0 {
                d.stats.eintr += 1;
                return Decision::Eintr;
            }
        }
        let mut n = req;
        if let Some(m) = d.plan.short_write_max {
            if n > m.max(1) {
                n = m.max(1);
                d.stats.short_writes += 1;
            }
        }
        if let Some(b) = d.plan.write_budget {
            let left = b.saturating_sub(d.stats.bytes_written);
            if left == 0 && n > 0 {
                d.stats.enospc += 1;
                return Decision::Fail(io::Error::new(
                    io::ErrorKind::StorageFull,
                    "simfs: no space left on device (injected)",
                ));
            }
            n = n.min(left as usize);
        }
        d.stats.bytes_written += n as u64;
        Decision::Allow(n)
    })
}

fn decide_read(req: usize) -> Decision {
    with_disk(|d| {
        d.stats.reads += 1;
        d.calls += 1;
        if let Some(k) = d.plan.eintr_every {
            if k > 0 && d.calls % k == 0 {
                d.stats.eintr += 1;
                return Decision::Eintr;
            }
        }
        let mut n = req;
        if let Some(m) = d.plan.short_read_max {
            if n > m.max(1) {
                n = m.max(1);
                d.stats.short_reads += 1;
            }
        }
        if let Some(b) = d.plan.read_budget {
            let left = b.saturating_sub(d.stats.bytes_read);
            if left == 0 && n > 0 {
                d.stats.eio += 1;
                return Decision::Fail(io::Error::other("simfs: input/output error (injected)"));
            }
            n = n.min(left as usize);
        }
        Decision::Allow(n)
    })
}

impl Write for File {
    fn write(&mut self, buf: &[u8]) -> io::Result<usize> {
        if buf.is_empty() {
            return Ok(0);
        }
        let n = match decide_write(buf.len()) {
            Decision::Eintr => return Err(io::Error::new(io::ErrorKind::Interrupted, "simfs: EINTR")),
            Decision::Fail(e) => return Err(e),
            Decision::Allow(n) => n,
        };
        match &mut self.inner {
            Inner::Real(f) => {
                f.write_all(&buf[..n])?;
                Ok(n)
            }
            Inner::Mem { data, pos } => {
                let mut data = data.lock().unwrap_or_else(|e| e.into_inner());
                let p = *pos as usize;
                if data.len() < p + n {
                    data.resize(p + n, 0);
                }
                data[p..p + n].copy_from_slice(&buf[..n]);
                *pos += n as u64;
                Ok(n)
            }
        }
    }
    fn flush(&mut self) -> io::Result<()> {
        Ok(())
    }
}

impl Read for File {
    fn read(&mut self, buf: &mut [u8]) -> io::Result<usize> {
        if buf.is_empty() {
            return Ok(0);
        }
        let n = match decide_read(buf.len()) {
            Decision::Eintr => return Err(io::Error::new(io::ErrorKind::Interrupted, "simfs: EINTR")),
            Decision::Fail(e) => return Err(e),
            Decision::Allow(n) => n,
        };
        let got = match &mut self.inner {
            Inner::Real(f) => f.read(&mut buf[..n])?,
            Inner::Mem { data, pos } => {
                let data = data.lock().unwrap_or_else(|e| e.into_inner());
                let p = (*pos as usize).min(data.len());
                let k = n.min(data.len() - p);
                buf[..k].copy_from_slice(&data[p..p + k]);
                *pos += k as u64;
                k
            }
        };
        with_disk(|d| d.stats.bytes_read += got as u64);
        Ok(got)
    }
}

impl Seek for File {
    fn seek(&mut self, from: SeekFrom) -> io::Result<u64> {
        let fail = with_disk(|d| {
            let k = d.stats.seeks;
            d.stats.seeks += 1;
            let fail = d.plan.seek_fail_at == Some(k);
            if fail {
                d.stats.seek_failed += 1;
            }
            fail
        });
        if fail {
            return Err(io::Error::other("simfs: injected seek failure"));
        }
        match &mut self.inner {
            Inner::Real(f) => f.seek(from),
            Inner::Mem { data, pos } => {
                let data = data.lock().unwrap_or_else(|e| e.into_inner());
                let new = match from {
                    SeekFrom::Start(o) => o as i128,
                    SeekFrom::End(o) => data.len() as i128 + o as i128,
                    SeekFrom::Current(o) => *pos as i128 + o as i128,
                };
                if new < 0 {
                    return Err(io::Error::new(io::ErrorKind::InvalidInput, "simfs: negative seek"));
                }
                *pos = new as u64;
                Ok(*pos)
            }
        }
    }
}
