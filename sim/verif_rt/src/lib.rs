//! Runtime the `cfg(sux_verif)` hooks in /repo call into.
//!
//! * `sched_point(site)`: a scheduling point before an atomic operation. Inside
//!   a shuttle execution started through [`in_shuttle`] it hands control to the
//!   shuttle scheduler; anywhere else it is a thread-local flag test.
//! * `probe(id)`: evidence-only counters.
//! * `thread`, `atomic`: shuttle re-exports used by the `mod std` shadow in
//!   `vbuilder.rs`.
//! * `simfs`: in-memory, fault-plan driven replacement of `std::fs::File` used
//!   by the `mod std` shadow in `sig_store.rs`.

use std::cell::Cell;
use std::sync::atomic::{AtomicU64, Ordering};

pub mod simfs;
pub mod simatomic;
pub use simatomic::SimAtomicUsize;

pub mod thread {
    pub use shuttle::thread::*;
}

pub mod atomic {
    pub use shuttle::sync::atomic::*;
}

/// Blocking primitives: a future edit of the builder that reaches for one of these gets the
/// scheduler-aware version instead of blocking the simulator's only OS thread.
pub mod sync {
    pub use shuttle::sync::{Barrier, BarrierWaitResult, Condvar, Mutex, MutexGuard, Once, RwLock, RwLockReadGuard, RwLockWriteGuard};
    pub mod mpsc {
        pub use shuttle::sync::mpsc::*;
    }
}

thread_local! {
    static IN_SHUTTLE: Cell<bool> = const { Cell::new(false) };
    static TRACE_HASH: Cell<u64> = const { Cell::new(0xcbf29ce484222325) };
    static TRACE_LEN: Cell<u64> = const { Cell::new(0) };
}

/// True while the current OS thread is executing a shuttle run started with [`enter_shuttle`].
#[inline]
pub fn in_shuttle() -> bool {
    IN_SHUTTLE.with(|c| c.get())
}

/// RAII guard marking the current OS thread as running shuttle executions.
pub struct ShuttleGuard(bool);
pub fn enter_shuttle() -> ShuttleGuard {
    let prev = IN_SHUTTLE.with(|c| c.replace(true));
    ShuttleGuard(prev)
}
impl Drop for ShuttleGuard {
    fn drop(&mut self) {
        IN_SHUTTLE.with(|c| c.set(self.0));
    }
}

/// Reset the (task, site) trace hash; returns nothing.
pub fn trace_reset() {
    TRACE_HASH.with(|c| c.set(0xcbf29ce484222325));
    TRACE_LEN.with(|c| c.set(0));
}
/// Hash and length of the (task, site) sequence since the last reset.
pub fn trace_get() -> (u64, u64) {
    (TRACE_HASH.with(|c| c.get()), TRACE_LEN.with(|c| c.get()))
}
#[inline]
pub fn trace_push(a: u64, b: u64) {
    TRACE_HASH.with(|c| {
        let mut h = c.get();
        h = (h ^ a).wrapping_mul(0x100000001b3);
        h = (h ^ b).wrapping_mul(0x100000001b3);
        c.set(h);
    });
    TRACE_LEN.with(|c| c.set(c.get() + 1));
}

/// Scheduling point placed immediately before an atomic operation.
///
/// Sites below 100 are the hand-placed hooks in `/repo/src/bits`; since the atomic
/// types of those files are themselves behind scheduling points (sites from 100:
/// the `common_traits` shim; from 200: [`SimAtomicUsize`]) every one of them is
/// immediately followed by a type-level point, so they no longer switch: two
/// back-to-back switch points only dilute the PCT change points.
#[inline]
pub fn sched_point(site: u32) {
    // (in the fallback build `--cfg sux_verif_stdatomic`, which keeps the std atomic
    // types, the numbered hooks are the switch points again)
    #[cfg(not(sux_verif_stdatomic))]
    if site < 100 {
        return;
    }
    if in_shuttle() {
        if let Some(me) = shuttle::current::get_current_task() {
            let id: usize = me.into();
            trace_push(id as u64, site as u64);
            SCHED_POINTS.fetch_add(1, Ordering::Relaxed);
            // sleep(0) is a plain switch point; yield_now would deprioritise the
            // caller and make PCT degenerate.
            shuttle::thread::sleep(std::time::Duration::ZERO);
        }
    }
}

/// Scheduling point of the `common_traits` shim in front of a trait-level atomic operation on
/// `T`: skipped when `T` carries its own points ([`SimAtomicUsize`]).
#[inline]
pub fn sched_point_for<T: 'static>(site: u32) {
    if core::any::TypeId::of::<T>() != core::any::TypeId::of::<SimAtomicUsize>() {
        sched_point(site);
    }
}

pub static SCHED_POINTS: AtomicU64 = AtomicU64::new(0);

pub const NUM_PROBES: usize = 64;
#[allow(clippy::declare_interior_mutable_const)]
const Z: AtomicU64 = AtomicU64::new(0);
pub static PROBES: [AtomicU64; NUM_PROBES] = [Z; NUM_PROBES];

/// Evidence-only counter; never decides anything.
#[inline]
pub fn probe(id: usize) {
    if id < NUM_PROBES {
        PROBES[id].fetch_add(1, Ordering::Relaxed);
    }
}
pub fn probe_get(id: usize) -> u64 {
    PROBES[id].load(Ordering::Relaxed)
}
pub fn probes_snapshot() -> Vec<u64> {
    PROBES.iter().map(|p| p.load(Ordering::Relaxed)).collect()
}
