//! `AtomicUsize` as seen by `src/bits/bit_vec.rs` in a simulation build: the std
//! atomic (same layout, same operations, real memory effects) with a scheduling
//! point of the simulator in front of every operation, so that the seeded
//! scheduler decides every interleaving of the *memory operations* of
//! `AtomicBitVec`, including operations that a later change of the code adds.
//! Outside a shuttle execution the scheduling point is a no-op.

use crate::sched_point;
use std::sync::atomic::{AtomicUsize, Ordering};

#[repr(transparent)]
#[derive(Default)]
pub struct SimAtomicUsize(AtomicUsize);

impl core::fmt::Debug for SimAtomicUsize {
    fn fmt(&self, f: &mut core::fmt::Formatter<'_>) -> core::fmt::Result {
        core::fmt::Debug::fmt(&self.0, f)
    }
}

impl From<usize> for SimAtomicUsize {
    fn from(v: usize) -> Self {
        Self::new(v)
    }
}

macro_rules! rmw {
    ($($site:literal $name:ident),*) => {$(
        #[inline]
        pub fn $name(&self, val: usize, order: Ordering) -> usize {
            sched_point($site);
            self.0.$name(val, order)
        }
    )*};
}

impl SimAtomicUsize {
    #[inline]
    pub const fn new(v: usize) -> Self {
        Self(AtomicUsize::new(v))
    }
    #[inline]
    pub fn get_mut(&mut self) -> &mut usize {
        self.0.get_mut()
    }
    #[inline]
    pub fn into_inner(self) -> usize {
        self.0.into_inner()
    }
    #[inline]
    pub fn as_ptr(&self) -> *mut usize {
        self.0.as_ptr()
    }
    #[inline]
    pub fn load(&self, order: Ordering) -> usize {
        sched_point(200);
        self.0.load(order)
    }
    #[inline]
    pub fn store(&self, val: usize, order: Ordering) {
        sched_point(201);
        self.0.store(val, order)
    }
    rmw!(202 swap, 203 fetch_add, 204 fetch_sub, 205 fetch_and, 206 fetch_nand, 207 fetch_or, 208 fetch_xor, 209 fetch_max, 210 fetch_min);
    #[inline]
    pub fn compare_exchange(&self, current: usize, new: usize, success: Ordering, failure: Ordering) -> Result<usize, usize> {
        sched_point(211);
        self.0.compare_exchange(current, new, success, failure)
    }
    #[inline]
    pub fn compare_exchange_weak(&self, current: usize, new: usize, success: Ordering, failure: Ordering) -> Result<usize, usize> {
        // never fails spuriously: one source of nondeterminism less
        sched_point(212);
        self.0.compare_exchange(current, new, success, failure)
    }
    /// An explicit load/compare-exchange loop with a scheduling point before each
    /// memory operation, as the std implementation is one.
    #[inline]
    pub fn fetch_update<F: FnMut(usize) -> Option<usize>>(&self, set_order: Ordering, fetch_order: Ordering, mut f: F) -> Result<usize, usize> {
        sched_point(213);
        let mut prev = self.0.load(fetch_order);
        while let Some(next) = f(prev) {
            sched_point(214);
            match self.0.compare_exchange(prev, next, set_order, fetch_order) {
                x @ Ok(_) => return x,
                Err(p) => prev = p,
            }
        }
        Err(prev)
    }
}

impl mem_dbg::CopyType for SimAtomicUsize {
    type Copy = mem_dbg::True;
}
impl mem_dbg::MemSize for SimAtomicUsize {
    fn mem_size(&self, _flags: mem_dbg::SizeFlags) -> usize {
        core::mem::size_of::<Self>()
    }
}
impl mem_dbg::MemDbgImpl for SimAtomicUsize {}
