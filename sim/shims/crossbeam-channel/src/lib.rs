//! Shim of `crossbeam-channel` on `shuttle::sync::{Mutex, Condvar}`.
//!
//! Same blocking and disconnection semantics as the real crate for the
//! channel flavours it implements (bounded incl. zero-capacity rendezvous,
//! unbounded): `send` blocks while full and fails once every receiver is gone,
//! `recv` blocks while empty and fails once every sender is gone *and* the
//! queue is drained. Every operation is a shuttle scheduling point.

use shuttle::sync::{Condvar, Mutex};
use std::collections::VecDeque;
use std::fmt;
use std::sync::Arc;
use std::time::{Duration, Instant};

struct State<T> {
    q: VecDeque<T>,
    /// None = unbounded; Some(0) = rendezvous
    cap: Option<usize>,
    senders: usize,
    receivers: usize,
    /// number of messages ever popped (rendezvous hand-over detection)
    taken: u64,
    /// number of messages ever pushed
    pushed: u64,
}

struct Chan<T> {
    m: Mutex<State<T>>,
    cv: Condvar,
}

pub struct Sender<T> {
    c: Arc<Chan<T>>,
}
pub struct Receiver<T> {
    c: Arc<Chan<T>>,
}

#[derive(PartialEq, Eq, Clone, Copy)]
pub struct SendError<T>(pub T);
#[derive(PartialEq, Eq, Clone, Copy, Debug)]
pub struct RecvError;
#[derive(PartialEq, Eq, Clone, Copy)]
pub enum TrySendError<T> {
    Full(T),
    Disconnected(T),
}
#[derive(PartialEq, Eq, Clone, Copy, Debug)]
pub enum TryRecvError {
    Empty,
    Disconnected,
}
#[derive(PartialEq, Eq, Clone, Copy)]
pub enum SendTimeoutError<T> {
    Timeout(T),
    Disconnected(T),
}
#[derive(PartialEq, Eq, Clone, Copy, Debug)]
pub enum RecvTimeoutError {
    Timeout,
    Disconnected,
}

impl<T> fmt::Debug for SendError<T> {
    fn fmt(&self, f: &mut fmt::Formatter<'_>) -> fmt::Result {
        "SendError(..)".fmt(f)
    }
}
impl<T> fmt::Display for SendError<T> {
    fn fmt(&self, f: &mut fmt::Formatter<'_>) -> fmt::Result {
        "sending on a disconnected channel".fmt(f)
    }
}
impl<T: Send> std::error::Error for SendError<T> {}
impl<T> SendError<T> {
    pub fn into_inner(self) -> T {
        self.0
    }
}
impl fmt::Display for RecvError {
    fn fmt(&self, f: &mut fmt::Formatter<'_>) -> fmt::Result {
        "receiving on an empty and disconnected channel".fmt(f)
    }
}
impl std::error::Error for RecvError {}
impl<T> fmt::Debug for TrySendError<T> {
    fn fmt(&self, f: &mut fmt::Formatter<'_>) -> fmt::Result {
        match self {
            TrySendError::Full(..) => "Full(..)".fmt(f),
            TrySendError::Disconnected(..) => "Disconnected(..)".fmt(f),
        }
    }
}
impl<T> fmt::Display for TrySendError<T> {
    fn fmt(&self, f: &mut fmt::Formatter<'_>) -> fmt::Result {
        match self {
            TrySendError::Full(..) => "sending on a full channel".fmt(f),
            TrySendError::Disconnected(..) => "sending on a disconnected channel".fmt(f),
        }
    }
}
impl<T: Send> std::error::Error for TrySendError<T> {}
impl<T> TrySendError<T> {
    pub fn into_inner(self) -> T {
        match self {
            TrySendError::Full(v) | TrySendError::Disconnected(v) => v,
        }
    }
    pub fn is_full(&self) -> bool {
        matches!(self, TrySendError::Full(_))
    }
    pub fn is_disconnected(&self) -> bool {
        matches!(self, TrySendError::Disconnected(_))
    }
}
impl fmt::Display for TryRecvError {
    fn fmt(&self, f: &mut fmt::Formatter<'_>) -> fmt::Result {
        match self {
            TryRecvError::Empty => "receiving on an empty channel".fmt(f),
            TryRecvError::Disconnected => "receiving on an empty and disconnected channel".fmt(f),
        }
    }
}
impl std::error::Error for TryRecvError {}
impl TryRecvError {
    pub fn is_empty(&self) -> bool {
        matches!(self, TryRecvError::Empty)
    }
    pub fn is_disconnected(&self) -> bool {
        matches!(self, TryRecvError::Disconnected)
    }
}
impl<T> fmt::Debug for SendTimeoutError<T> {
    fn fmt(&self, f: &mut fmt::Formatter<'_>) -> fmt::Result {
        "SendTimeoutError(..)".fmt(f)
    }
}
impl<T> fmt::Display for SendTimeoutError<T> {
    fn fmt(&self, f: &mut fmt::Formatter<'_>) -> fmt::Result {
        match self {
            SendTimeoutError::Timeout(..) => "timed out waiting on send operation".fmt(f),
            SendTimeoutError::Disconnected(..) => "sending on a disconnected channel".fmt(f),
        }
    }
}
impl<T: Send> std::error::Error for SendTimeoutError<T> {}
impl fmt::Display for RecvTimeoutError {
    fn fmt(&self, f: &mut fmt::Formatter<'_>) -> fmt::Result {
        match self {
            RecvTimeoutError::Timeout => "timed out waiting on receive operation".fmt(f),
            RecvTimeoutError::Disconnected => "channel is empty and disconnected".fmt(f),
        }
    }
}
impl std::error::Error for RecvTimeoutError {}

#[inline]
fn trace(op: u64) {
    if let Some(me) = shuttle::current::get_current_task() {
        let id: usize = me.into();
        verif_rt::trace_push(id as u64, 1000 + op);
    }
}

fn chan<T>(cap: Option<usize>) -> (Sender<T>, Receiver<T>) {
    let c = Arc::new(Chan {
        m: Mutex::new(State {
            q: VecDeque::new(),
            cap,
            senders: 1,
            receivers: 1,
            taken: 0,
            pushed: 0,
        }),
        cv: Condvar::new(),
    });
    (Sender { c: c.clone() }, Receiver { c })
}

/// Creates a channel of bounded capacity (0 = rendezvous).
pub fn bounded<T>(cap: usize) -> (Sender<T>, Receiver<T>) {
    chan(Some(cap))
}

/// Creates a channel of unbounded capacity.
pub fn unbounded<T>() -> (Sender<T>, Receiver<T>) {
    chan(None)
}

impl<T> Sender<T> {
    pub fn send(&self, msg: T) -> Result<(), SendError<T>> {
        trace(1);
        let mut g = self.c.m.lock().unwrap_or_else(|e| e.into_inner());
        loop {
            if g.receivers == 0 {
                return Err(SendError(msg));
            }
            let room = match g.cap {
                None => true,
                Some(0) => g.q.is_empty(),
                Some(c) => g.q.len() < c,
            };
            if room {
                break;
            }
            g = self.c.cv.wait(g).unwrap_or_else(|e| e.into_inner());
        }
        g.q.push_back(msg);
        g.pushed += 1;
        let ticket = g.pushed;
        self.c.cv.notify_all();
        if g.cap == Some(0) {
            // rendezvous: complete only when a receiver has taken our message
            loop {
                if g.taken >= ticket {
                    return Ok(());
                }
                if g.receivers == 0 {
                    // nobody will ever take it: a rendezvous queue holds at most one
                    // message and ours has not been taken, so it is the one queued
                    return match g.q.pop_front() {
                        Some(m) => Err(SendError(m)),
                        None => Ok(()),
                    };
                }
                g = self.c.cv.wait(g).unwrap_or_else(|e| e.into_inner());
            }
        }
        Ok(())
    }

    pub fn try_send(&self, msg: T) -> Result<(), TrySendError<T>> {
        let mut g = self.c.m.lock().unwrap_or_else(|e| e.into_inner());
        if g.receivers == 0 {
            return Err(TrySendError::Disconnected(msg));
        }
        let room = match g.cap {
            None => true,
            // a rendezvous try_send succeeds only if a receiver is blocked right now;
            // the shim is conservative and reports Full
            Some(0) => false,
            Some(c) => g.q.len() < c,
        };
        if !room {
            return Err(TrySendError::Full(msg));
        }
        g.q.push_back(msg);
        g.pushed += 1;
        self.c.cv.notify_all();
        Ok(())
    }

    pub fn send_timeout(&self, msg: T, _timeout: Duration) -> Result<(), SendTimeoutError<T>> {
        // the simulator has no clock: a timeout never fires
        self.send(msg).map_err(|e| SendTimeoutError::Disconnected(e.0))
    }
    pub fn send_deadline(&self, msg: T, _deadline: Instant) -> Result<(), SendTimeoutError<T>> {
        self.send(msg).map_err(|e| SendTimeoutError::Disconnected(e.0))
    }
    pub fn is_empty(&self) -> bool {
        self.c.m.lock().unwrap_or_else(|e| e.into_inner()).q.is_empty()
    }
    pub fn is_full(&self) -> bool {
        let g = self.c.m.lock().unwrap_or_else(|e| e.into_inner());
        match g.cap {
            None => false,
            Some(0) => true,
            Some(c) => g.q.len() >= c,
        }
    }
    pub fn len(&self) -> usize {
        self.c.m.lock().unwrap_or_else(|e| e.into_inner()).q.len()
    }
    pub fn capacity(&self) -> Option<usize> {
        self.c.m.lock().unwrap_or_else(|e| e.into_inner()).cap
    }
    pub fn same_channel(&self, other: &Sender<T>) -> bool {
        Arc::ptr_eq(&self.c, &other.c)
    }
}

impl<T> Clone for Sender<T> {
    fn clone(&self) -> Self {
        self.c.m.lock().unwrap_or_else(|e| e.into_inner()).senders += 1;
        Sender { c: self.c.clone() }
    }
}
impl<T> Drop for Sender<T> {
    fn drop(&mut self) {
        if std::thread::panicking() {
            // do not block or double-panic during unwinding
            if let Ok(mut g) = self.c.m.try_lock() {
                g.senders -= 1;
                self.c.cv.notify_all();
            }
            return;
        }
        trace(4);
        let mut g = self.c.m.lock().unwrap_or_else(|e| e.into_inner());
        g.senders -= 1;
        self.c.cv.notify_all();
    }
}
impl<T> fmt::Debug for Sender<T> {
    fn fmt(&self, f: &mut fmt::Formatter<'_>) -> fmt::Result {
        f.pad("Sender { .. }")
    }
}

impl<T> Receiver<T> {
    pub fn recv(&self) -> Result<T, RecvError> {
        trace(2);
        let mut g = self.c.m.lock().unwrap_or_else(|e| e.into_inner());
        loop {
            if let Some(m) = g.q.pop_front() {
                g.taken += 1;
                self.c.cv.notify_all();
                trace(3);
                return Ok(m);
            }
            if g.senders == 0 {
                return Err(RecvError);
            }
            g = self.c.cv.wait(g).unwrap_or_else(|e| e.into_inner());
        }
    }
    pub fn try_recv(&self) -> Result<T, TryRecvError> {
        let mut g = self.c.m.lock().unwrap_or_else(|e| e.into_inner());
        if let Some(m) = g.q.pop_front() {
            g.taken += 1;
            self.c.cv.notify_all();
            return Ok(m);
        }
        if g.senders == 0 {
            Err(TryRecvError::Disconnected)
        } else {
            Err(TryRecvError::Empty)
        }
    }
    pub fn recv_timeout(&self, _timeout: Duration) -> Result<T, RecvTimeoutError> {
        self.recv().map_err(|_| RecvTimeoutError::Disconnected)
    }
    pub fn recv_deadline(&self, _deadline: Instant) -> Result<T, RecvTimeoutError> {
        self.recv().map_err(|_| RecvTimeoutError::Disconnected)
    }
    pub fn is_empty(&self) -> bool {
        self.c.m.lock().unwrap_or_else(|e| e.into_inner()).q.is_empty()
    }
    pub fn is_full(&self) -> bool {
        let g = self.c.m.lock().unwrap_or_else(|e| e.into_inner());
        match g.cap {
            None => false,
            Some(0) => true,
            Some(c) => g.q.len() >= c,
        }
    }
    pub fn len(&self) -> usize {
        self.c.m.lock().unwrap_or_else(|e| e.into_inner()).q.len()
    }
    pub fn capacity(&self) -> Option<usize> {
        self.c.m.lock().unwrap_or_else(|e| e.into_inner()).cap
    }
    pub fn iter(&self) -> Iter<'_, T> {
        Iter { r: self }
    }
    pub fn try_iter(&self) -> TryIter<'_, T> {
        TryIter { r: self }
    }
    pub fn same_channel(&self, other: &Receiver<T>) -> bool {
        Arc::ptr_eq(&self.c, &other.c)
    }
}
impl<T> Clone for Receiver<T> {
    fn clone(&self) -> Self {
        self.c.m.lock().unwrap_or_else(|e| e.into_inner()).receivers += 1;
        Receiver { c: self.c.clone() }
    }
}
impl<T> Drop for Receiver<T> {
    fn drop(&mut self) {
        if std::thread::panicking() {
            if let Ok(mut g) = self.c.m.try_lock() {
                g.receivers -= 1;
                self.c.cv.notify_all();
            }
            return;
        }
        trace(5);
        let mut g = self.c.m.lock().unwrap_or_else(|e| e.into_inner());
        g.receivers -= 1;
        // like the real crate, messages still queued when the last receiver goes are dropped
        let dead: Vec<T> = if g.receivers == 0 && g.cap != Some(0) {
            g.q.drain(..).collect()
        } else {
            Vec::new()
        };
        self.c.cv.notify_all();
        drop(g);
        drop(dead);
    }
}
impl<T> fmt::Debug for Receiver<T> {
    fn fmt(&self, f: &mut fmt::Formatter<'_>) -> fmt::Result {
        f.pad("Receiver { .. }")
    }
}

pub struct Iter<'a, T> {
    r: &'a Receiver<T>,
}
impl<T> Iterator for Iter<'_, T> {
    type Item = T;
    fn next(&mut self) -> Option<T> {
        self.r.recv().ok()
    }
}
pub struct TryIter<'a, T> {
    r: &'a Receiver<T>,
}
impl<T> Iterator for TryIter<'_, T> {
    type Item = T;
    fn next(&mut self) -> Option<T> {
        self.r.try_recv().ok()
    }
}
pub struct IntoIter<T> {
    r: Receiver<T>,
}
impl<T> Iterator for IntoIter<T> {
    type Item = T;
    fn next(&mut self) -> Option<T> {
        self.r.recv().ok()
    }
}
impl<T> IntoIterator for Receiver<T> {
    type Item = T;
    type IntoIter = IntoIter<T>;
    fn into_iter(self) -> IntoIter<T> {
        IntoIter { r: self }
    }
}
impl<'a, T> IntoIterator for &'a Receiver<T> {
    type Item = T;
    type IntoIter = Iter<'a, T>;
    fn into_iter(self) -> Iter<'a, T> {
        self.iter()
    }
}
