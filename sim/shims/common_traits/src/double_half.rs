use crate::{DowncastableFrom, FiniteRangeNumber, FromBytes, Integer, To, ToBytes, UpcastableFrom};

/// A trait to access a type with double the number of bits of Self.
pub trait DoubleType:
    Integer + FiniteRangeNumber + ToBytes + FromBytes + DowncastableFrom<Self::DoubleType>
{
    type DoubleType: HalfType<HalfType = Self>
        + UpcastableFrom<Self>
        + To<Self>
        + Integer
        + FiniteRangeNumber
        + ToBytes
        + FromBytes;
}

/// A trait to access a type with half the number of bits of Self.
pub trait HalfType:
    Integer + FiniteRangeNumber + ToBytes + FromBytes + UpcastableFrom<Self::HalfType>
{
    type HalfType: DoubleType<DoubleType = Self>
        + DowncastableFrom<Self>
        + To<Self>
        + Integer
        + FiniteRangeNumber
        + ToBytes
        + FromBytes;
}

macro_rules! impl_double_half {
    ($small:ty, $big:ty) => {
impl DoubleType for $small {
    type DoubleType = $big;
}
impl HalfType for $big {
    type HalfType = $small;
}
    };
    ($_:ty) => {};
    ($small:ty, $big:ty, $($tail:ty),*) => {
        impl_double_half!($small, $big);
        impl_double_half!($big, $($tail),*);
    };
}

impl_double_half!(u8, u16, u32, u64, u128);
impl_double_half!(i8, i16, i32, i64, i128);
