use core::sync::atomic::Ordering;

use crate::{AtomicNumber, False, Integer, IsSigned, SignedInt, True, UnsignedInt};

/// An atomic integer type.
pub trait AtomicInteger: AtomicNumber
where
    Self::NonAtomicType: Integer,
{
    /// Bitwise “and” with the current value.
    ///
    /// Performs a bitwise “and” operation on the current value and the argument
    /// val, and sets the new value to the result.
    ///
    /// Returns the previous value.
    ///
    /// [`AtomicInteger::fetch_and`] an [`Ordering`](`core::sync::atomic::Ordering`) argument
    /// which describes the memory ordering of this operation. All ordering
    /// modes are possible.
    /// Note that using [`Acquire`](`core::sync::atomic::Ordering::Acquire`)
    /// makes the store part of this operation
    /// [`Relaxed`](`core::sync::atomic::Ordering::Relaxed`), and using
    /// [`Release`](`core::sync::atomic::Ordering::Release`) makes the load part
    /// [`Relaxed`](`core::sync::atomic::Ordering::Relaxed`).
    ///
    /// Note: This method is only available on platforms that support atomic
    /// operations on the given type.
    fn fetch_and(&self, value: Self::NonAtomicType, order: Ordering) -> Self::NonAtomicType;

    /// Bitwise “nand” with the current value.
    ///
    /// Performs a bitwise “nand” operation on the current value and the
    /// argument val, and sets the new value to the result.
    ///
    /// Returns the previous value.
    ///
    /// [`AtomicInteger::fetch_nand`] an [`Ordering`](`core::sync::atomic::Ordering`) argument
    /// which describes the memory ordering of this operation. All ordering
    /// modes are possible.
    /// Note that using [`Acquire`](`core::sync::atomic::Ordering::Acquire`)
    /// makes the store part of this operation
    /// [`Relaxed`](`core::sync::atomic::Ordering::Relaxed`), and using
    /// [`Release`](`core::sync::atomic::Ordering::Release`) makes the load part
    /// [`Relaxed`](`core::sync::atomic::Ordering::Relaxed`).
    ///
    /// Note: This method is only available on platforms that support atomic
    /// operations on the given type.
    fn fetch_nand(&self, value: Self::NonAtomicType, order: Ordering) -> Self::NonAtomicType;
    /// Bitwise “or” with the current value.
    ///
    /// Performs a bitwise “or” operation on the current value and the argument val, and sets the new value to the result.
    ///
    /// Returns the previous value.
    ///
    /// [`AtomicInteger::fetch_or`] an [`Ordering`](`core::sync::atomic::Ordering`) argument
    /// which describes the memory ordering of this operation. All ordering
    /// modes are possible.
    /// Note that using [`Acquire`](`core::sync::atomic::Ordering::Acquire`)
    /// makes the store part of this operation
    /// [`Relaxed`](`core::sync::atomic::Ordering::Relaxed`), and using
    /// [`Release`](`core::sync::atomic::Ordering::Release`) makes the load part
    /// [`Relaxed`](`core::sync::atomic::Ordering::Relaxed`).
    ///
    /// Note: This method is only available on platforms that support atomic
    /// operations on the given type.
    fn fetch_or(&self, value: Self::NonAtomicType, order: Ordering) -> Self::NonAtomicType;
    /// Bitwise “xor” with the current value.
    ///
    /// Performs a bitwise “xor” operation on the current value and the argument val, and sets the new value to the result.
    ///
    /// Returns the previous value.
    ///
    /// [`AtomicInteger::fetch_xor`] an [`Ordering`](`core::sync::atomic::Ordering`) argument
    /// which describes the memory ordering of this operation. All ordering
    /// modes are possible.
    /// Note that using [`Acquire`](`core::sync::atomic::Ordering::Acquire`)
    /// makes the store part of this operation
    /// [`Relaxed`](`core::sync::atomic::Ordering::Relaxed`), and using
    /// [`Release`](`core::sync::atomic::Ordering::Release`) makes the load part
    /// [`Relaxed`](`core::sync::atomic::Ordering::Relaxed`).
    ///
    /// Note: This method is only available on platforms that support atomic
    /// operations on the given type.
    fn fetch_xor(&self, value: Self::NonAtomicType, order: Ordering) -> Self::NonAtomicType;
}

/// An atomic signed integer type.
pub trait AtomicSignedInt: AtomicInteger + IsSigned<Signed = True>
where
    Self::NonAtomicType: SignedInt,
{
}

/// An atomic unsigned integer type.
pub trait AtomicUnsignedInt: AtomicInteger + IsSigned<Signed = False>
where
    Self::NonAtomicType: UnsignedInt,
{
}
