/// `CastableInto : CastableFrom = Into : From`, It's easier to use to
/// specify bounds on generic variables
pub trait CastableInto<W>: Sized {
    /// Call `W::cast_from(self)`
    fn cast(self) -> W;
}

/// Trait for primitive integers, this is the combination of
/// [`DowncastableFrom`](`crate::downcastable::DowncastableFrom`) and [`UpcastableFrom`](`crate::upcastable::UpcastableFrom`). Prefer using the other two
/// traits, as casting without knowing which value will be bigger might result
/// in hard to find bugs.
///
/// This is equivalent to calling `as` between two types
pub trait CastableFrom<W>: Sized {
    /// Call `Self as W`
    fn cast_from(value: W) -> Self;
}

/// Riflexivity
impl<T> CastableFrom<T> for T {
    #[inline(always)]
    fn cast_from(value: T) -> Self {
        value
    }
}

/// UpcastableFrom implies UpcastableInto
impl<T, U> CastableInto<U> for T
where
    U: CastableFrom<T>,
{
    #[inline(always)]
    fn cast(self) -> U {
        U::cast_from(self)
    }
}

macro_rules! impl_casts {
    ($base_type:ty, $($ty:ty,)*) => {$(
impl CastableFrom<$base_type> for $ty {
    #[inline(always)]
    fn cast_from(value: $base_type) -> Self {
        value as $ty
    }
}
impl CastableFrom<$ty> for $base_type {
    #[inline(always)]
    fn cast_from(value: $ty) -> $base_type {
        value as $base_type
    }
}
    )*
    impl_casts!($($ty,)*);
};
    () => {};
}

impl_casts!(u8, u16, u32, u64, u128, usize,);
impl_casts!(i8, i16, i32, i64, i128, isize,);

impl_casts!(f32, f64,);

#[cfg(feature = "half")]
mod half_impl {
    use super::*;
    impl CastableFrom<f32> for half::f16 {
        #[inline(always)]
        fn cast_from(value: f32) -> Self {
            Self::from_f32(value)
        }
    }
    impl CastableFrom<f64> for half::f16 {
        #[inline(always)]
        fn cast_from(value: f64) -> Self {
            Self::from_f64(value)
        }
    }
    impl CastableFrom<f32> for half::bf16 {
        #[inline(always)]
        fn cast_from(value: f32) -> Self {
            Self::from_f32(value)
        }
    }
    impl CastableFrom<f64> for half::bf16 {
        #[inline(always)]
        fn cast_from(value: f64) -> Self {
            Self::from_f64(value)
        }
    }
    impl CastableFrom<half::f16> for f32 {
        #[inline(always)]
        fn cast_from(value: half::f16) -> Self {
            value.to_f32()
        }
    }
    impl CastableFrom<half::bf16> for f32 {
        #[inline(always)]
        fn cast_from(value: half::bf16) -> Self {
            value.to_f32()
        }
    }
    impl CastableFrom<half::f16> for f64 {
        #[inline(always)]
        fn cast_from(value: half::f16) -> Self {
            value.to_f64()
        }
    }
    impl CastableFrom<half::bf16> for f64 {
        #[inline(always)]
        fn cast_from(value: half::bf16) -> Self {
            value.to_f64()
        }
    }
}
