use crate::{False, IsFloat, IsInteger, IsNonZero, Number, True};
use core::fmt::{Binary, LowerHex};
use core::ops::{
    BitAnd, BitAndAssign, BitOr, BitOrAssign, BitXor, BitXorAssign, Not, Shl, ShlAssign, Shr,
    ShrAssign,
};

/// A trait for operations that are shared by signed and unsigned integers.
pub trait Integer:
    Number
    + IsInteger<Integer = True>
    + IsFloat<Float = False>
    + IsNonZero<NonZero = False>
    + LowerHex
    + Ord
    + Eq
    + Binary
    + BitAnd<Output = Self>
    + BitAndAssign
    + BitOr<Output = Self>
    + BitOrAssign
    + BitXor<Output = Self>
    + BitXorAssign
    + Not<Output = Self>
    + Shl<Output = Self>
    + ShlAssign
    + Shr<Output = Self>
    + ShrAssign
    + Shl<u8, Output = Self>
    + ShlAssign<u8>
    + Shr<u8, Output = Self>
    + ShrAssign<u8>
    + Shl<u16, Output = Self>
    + ShlAssign<u16>
    + Shr<u16, Output = Self>
    + ShrAssign<u16>
    + Shl<u32, Output = Self>
    + ShlAssign<u32>
    + Shr<u32, Output = Self>
    + ShrAssign<u32>
    + Shl<u64, Output = Self>
    + ShlAssign<u64>
    + Shr<u64, Output = Self>
    + ShrAssign<u64>
    + Shl<u128, Output = Self>
    + ShlAssign<u128>
    + Shr<u128, Output = Self>
    + ShrAssign<u128>
    + Shl<usize, Output = Self>
    + ShlAssign<usize>
    + Shr<usize, Output = Self>
    + ShrAssign<usize>
    + Shl<i8, Output = Self>
    + ShlAssign<i8>
    + Shr<i8, Output = Self>
    + ShrAssign<i8>
    + Shl<i16, Output = Self>
    + ShlAssign<i16>
    + Shr<i16, Output = Self>
    + ShrAssign<i16>
    + Shl<i32, Output = Self>
    + ShlAssign<i32>
    + Shr<i32, Output = Self>
    + ShrAssign<i32>
    + Shl<i64, Output = Self>
    + ShlAssign<i64>
    + Shr<i64, Output = Self>
    + ShrAssign<i64>
    + Shl<i128, Output = Self>
    + ShlAssign<i128>
    + Shr<i128, Output = Self>
    + ShrAssign<i128>
    + Shl<isize, Output = Self>
    + ShlAssign<isize>
    + Shr<isize, Output = Self>
    + ShrAssign<isize>
{
    /// Get the i-th bit in the UnsignedInt. Valid values: [0, Self::BITS)
    fn extract_bit(&self, bit: usize) -> bool;

    /// Get the bits in range [START; END_BIT) in the UnsignedInt.
    /// START valid values: [0, Self::BITS)
    /// END valid values: [1, Self::BITS]
    /// START < END!!!
    fn extract_bitfield(&self, start_bit: usize, end_bit: usize) -> Self;

    /// Computes the absolute difference between self and other.
    fn abs_diff(self, rhs: Self) -> Self;

    /// Performs Euclidean division.
    /// Since, for the positive integers, all common definitions of division are
    /// equal, this is exactly equal to self / rhs.
    fn div_euclid(self, rhs: Self) -> Self;

    /// Calculates the least remainder of self (mod rhs).
    /// Since, for the positive integers, all common definitions of division are
    /// equal, this is exactly equal to self % rhs.
    fn rem_euclid(self, rhs: Self) -> Self;

    /// Converts an integer from big endian to the target’s endianness.
    /// On big endian this is a no-op. On little endian the bytes are swapped.
    fn from_be(rhs: Self) -> Self;

    /// Converts an integer from little endian to the target’s endianness.
    /// On little endian this is a no-op. On big endian the bytes are swapped.
    fn from_le(rhs: Self) -> Self;

    /// Converts self to big endian from the target’s endianness.
    /// On big endian this is a no-op. On little endian the bytes are swapped.
    fn to_be(self) -> Self;

    /// Converts self to little endian from the target’s endianness.
    /// On little endian this is a no-op. On big endian the bytes are swapped.
    fn to_le(self) -> Self;

    /// Reverse the byte order of the integer
    fn swap_bytes(self) -> Self;

    /// Checked integer addition. Computes self + rhs, returning None if
    /// overflow occurred.
    fn checked_add(self, rhs: Self) -> Option<Self>;

    /// Checked integer division. Computes self / rhs, returning None
    /// if rhs == 0.
    fn checked_div(self, rhs: Self) -> Option<Self>;

    /// Checked Euclidean division. Computes self.div_euclid(rhs), returning
    /// None if rhs == 0.
    fn checked_div_euclid(self, rhs: Self) -> Option<Self>;

    /// Checked integer multiplication. Computes self * rhs, returning None if
    /// overflow occurred.
    fn checked_mul(self, rhs: Self) -> Option<Self>;

    /// Checked negation. Computes -self, returning None unless self == 0.
    /// Note that negating any positive integer will overflow.
    fn checked_neg(self) -> Option<Self>;

    /// Checked exponentiation. Computes self.pow(exp), returning None if
    /// overflow occurred.
    fn checked_pow(self, exp: u32) -> Option<Self>;

    /// Checked integer remainder. Computes self % rhs, returning None
    /// if rhs == 0.
    fn checked_rem(self, rhs: Self) -> Option<Self>;

    /// Checked Euclidean modulo. Computes self.rem_euclid(rhs), returning None
    /// if rhs == 0.
    fn checked_rem_euclid(self, rhs: Self) -> Option<Self>;

    /// Checked shift left. Computes self << rhs, returning None if rhs is
    /// larger than or equal to the Integer of bits in self.
    fn checked_shl(self, rhs: u32) -> Option<Self>;

    /// Checked shift right. Computes self >> rhs, returning None if rhs is
    /// larger than or equal to the Integer of bits in self.
    fn checked_shr(self, rhs: u32) -> Option<Self>;

    /// Checked integer subtraction. Computes self - rhs, returning None if
    /// overflow occurred.
    fn checked_sub(self, rhs: Self) -> Option<Self>;

    /// Returns the Integer of ones in the binary representation of self.
    fn count_ones(self) -> u32;

    /// Returns the Integer of zeros in the binary representation of self.
    fn count_zeros(self) -> u32;

    /// Returns the Integer of leading ones in the binary representation of self.
    fn leading_ones(self) -> u32;
    /// Returns the Integer of trailing zeros in the binary representation of self.
    fn leading_zeros(self) -> u32;

    /// Reverses the order of bits in the integer. The least significant bit
    /// becomes the most significant bit, second least-significant bit becomes
    /// second most-significant bit, etc.
    fn reverse_bits(self) -> Self;

    /// Shifts the bits to the left by a specified amount, n, wrapping the t
    /// runcated bits to the end of the resulting integer.
    /// Please note this isn’t the same operation as the << shifting operator!
    fn rotate_left(self, exp: u32) -> Self;

    /// Shifts the bits to the right by a specified amount, n, wrapping the
    /// truncated bits to the beginning of the resulting integer.
    /// Please note this isn’t the same operation as the >> shifting operator!
    fn rotate_right(self, exp: u32) -> Self;

    /// Returns the Integer of trailing ones in the binary representation of self.
    fn trailing_ones(self) -> u32;

    /// Returns the Integer of trailing zeros in the binary representation of self.
    fn trailing_zeros(self) -> u32;

    /// Logical shift left `self` by `rhs`, returing the result.
    /// Overshifting by larget rhan [`AsBytes::BITS`](`crate::AsBytes::BITS`) will result in zero.
    fn overflow_shl(self, rhs: Self) -> Self;

    /// Logical shift right `self` by `rhs`, returing the result.
    /// Overshifting by larget rhan [`AsBytes::BITS`](`crate::AsBytes::BITS`) will result in zero.
    fn overflow_shr(self, rhs: Self) -> Self;

    /// Add `self` and `rhs`, returning the result using wrapping arithmetic
    fn wrapping_add(self, rhs: Self) -> Self;

    /// Wrapping (modular) division. Computes self / rhs. Wrapped division on
    /// unsigned types is just normal division. There’s no way wrapping could
    /// ever happen. This function exists, so that all operations are accounted
    /// for in the wrapping operations.
    fn wrapping_div(self, rhs: Self) -> Self;

    /// Wrapping Euclidean division. Computes self.div_euclid(rhs). Wrapped
    /// division on unsigned types is just normal division. There’s no way
    /// wrapping could ever happen. This function exists, so that all operations
    /// are accounted for in the wrapping operations. Since, for the positive
    /// integers, all common definitions of division are equal, this is exactly
    /// equal to self.wrapping_div(rhs).
    fn wrapping_div_euclid(self, rhs: Self) -> Self;

    /// Wrapping (modular) multiplication. Computes self * rhs, wrapping around
    /// at the boundary of the type.
    fn wrapping_mul(self, rhs: Self) -> Self;

    /// Wrapping (modular) negation. Computes -self, wrapping around at the
    /// boundary of the type.
    /// Since unsigned types do not have negative equivalents all applications
    /// of this function will wrap (except for -0). For values smaller than the
    /// corresponding signed type’s maximum the result is the same as casting
    /// the corresponding signed value. Any larger values are equivalent to
    /// MAX + 1 - (val - MAX - 1) where MAX is the corresponding signed type’s
    /// maximum.
    fn wrapping_neg(self) -> Self;

    /// Wrapping (modular) exponentiation. Computes self.pow(exp), wrapping
    /// around at the boundary of the type.
    fn wrapping_pow(self, exp: u32) -> Self;

    /// Wrapping (modular) remainder. Computes self % rhs. Wrapped remainder
    /// calculation on unsigned types is just the regular remainder calculation.
    /// There’s no way wrapping could ever happen. This function exists, so
    /// that all operations are accounted for in the wrapping operations.
    fn wrapping_rem(self, rhs: Self) -> Self;

    /// Wrapping Euclidean modulo. Computes self.rem_euclid(rhs). Wrapped modulo
    /// calculation on unsigned types is just the regular remainder calculation.
    /// There’s no way wrapping could ever happen. This function exists, so that
    /// all operations are accounted for in the wrapping operations. Since, for
    /// the positive integers, all common definitions of division are equal,
    /// this is exactly equal to self.wrapping_rem(rhs).
    fn wrapping_rem_euclid(self, rhs: Self) -> Self;

    /// Panic-free bitwise shift-left; yields self << mask(rhs), where mask
    /// removes any high-order bits of rhs that would cause the shift to exceed
    /// the bitwidth of the type.
    /// Note that this is not the same as a rotate-left; the RHS of a wrapping
    /// shift-left is restricted to the range of the type, rather than the bits
    /// shifted out of the LHS being returned to the other end. The primitive
    /// integer types all implement a rotate_left function, which may be what
    /// you want instead.
    fn wrapping_shl(self, rhs: u32) -> Self;

    /// Panic-free bitwise shift-right; yields self >> mask(rhs), where mask
    /// removes any high-order bits of rhs that would cause the shift to exceed
    /// the bitwidth of the type.
    /// Note that this is not the same as a rotate-right; the RHS of a wrapping
    /// shift-right is restricted to the range of the type, rather than the bits
    /// shifted out of the LHS being returned to the other end. The primitive
    /// integer types all implement a rotate_right function, which may be what
    /// you want instead.
    fn wrapping_shr(self, rhs: u32) -> Self;

    /// Subtract `self` and `rhs`, returning the result using wrapping
    /// arithmetic
    fn wrapping_sub(self, rhs: Self) -> Self;
}
