/**

Binary selection trait  that make it possible to implement traits differently on disjoint types.

The only two implementing types are [`True`] and [`False`].

This is used to
[circumvent a compiler limitation and implement traits differently
on disjoint types](https://github.com/rust-lang/rfcs/pull/1672#issuecomment-1405377983).

See [`IsAtomic`] for an example.

*/
pub trait BooleanSelector {}
/// [`BooleanSelector`] version of [`true`], this is an empty struct used only for
/// type system bounds
pub struct True {}
impl BooleanSelector for True {}
/// [`BooleanSelector`] version of [`false`], this is an empty struct used only for
/// type system bounds
pub struct False {}
impl BooleanSelector for False {}

/// A trait with an associated [`BooleanSelector`] type specifying whether the type is atomic.
/// It can be used to implement traits differently for atomic and non-atomic types.
/// See the `atomic_data` example.
pub trait IsAtomic {
    type Atomic: BooleanSelector;
}

/// A generic trait with an associated boolean, which can be used to do
/// specialization. See the example `atomic_data` for more information.
pub trait IsNonZero {
    type NonZero: BooleanSelector;
}

/// Non zero variants of primitives types for enum optimizations
pub trait NonZero: IsNonZero<NonZero = True> + Sized {
    type BaseType: IsNonZero<NonZero = False>;

    /// Creates a non-zero without checking whether the value is non-zero. This
    /// results in undefined behaviour if the value is zero.
    /// # Safety
    /// The value must not be zero.
    unsafe fn new_unchecked(n: Self::BaseType) -> Self;

    /// Creates a non-zero if the given value is not zero.
    fn new(n: Self::BaseType) -> Option<Self>;

    /// Returns the value as a primitive type.
    fn get(self) -> Self::BaseType;
}

/// A trait with an associated [`BooleanSelector`] type specifying whether an integer type is signed.
/// It can be used to implement traits differently for signed and unsigned types.
/// See the `atomic_data` example.
pub trait IsSigned {
    type Signed: BooleanSelector;
}

/// A trait with an associated [`BooleanSelector`] type specifying whether an type is a float number.
/// It can be used to implement traits differently for float and non float types.
/// See the `atomic_data` example.
pub trait IsFloat {
    type Float: BooleanSelector;
}

/// A trait with an associated [`BooleanSelector`] type specifying whether an type is an Integer number.
/// It can be used to implement traits differently for integer and non integer types.
/// See the `atomic_data` example.
pub trait IsInteger {
    type Integer: BooleanSelector;
}
