use crate::{False, Integer, IsNonZero, IsSigned, NonZero, SignedInt, Splat};

/// Unsigned UnsignedInt common operations
#[allow(clippy::len_without_is_empty)]
pub trait UnsignedInt:
    IsSigned<Signed = False> + IsNonZero<NonZero = False> + Integer + Splat<u8>
{
    /// The signed variant of the UnsignedInt
    type SignedInt: SignedInt<UnsignedInt = Self>;
    /// The non-zero variant of the UnsignedInt
    type NonZeroUnsignedInt: NonZero<BaseType = Self>;

    /// Convert `self` into the signed variant of `Self`
    fn to_signed(self) -> Self::SignedInt;

    /// Interpret `self` as `rhs` bits and sign-extend it to [`AsBytes::BITS`].
    fn sign_extend(self, rhs: u32) -> Self;

    /// Interpret `self` as `rhs` bits and zero-extend it to [`AsBytes::BITS`].
    fn zero_extend(self, rhs: u32) -> Self;

    /// Return the base 2 logarithm of the number, rounded down.
    /// This function panic if `self` is less than or equal to zero.
    fn ilog2(self) -> u32;

    /// Return the base 2 logarithm of the number, rounded up.
    /// This function panic if `self` is less than or equal to zero.
    fn ilog2_ceil(self) -> u32;

    /// Return the number of bits that are necessary to represent `self`.
    /// This is one for zero; otherwise, it is equal to `ilog2(self) + 1`.
    fn len(self) -> u32;

    /// Compute `(self + rhs - 1)` / rhs, which is equivalent to computing
    /// `((self as f64) / (rhs as f64)).ceil() as Self` but faster and without
    /// loss of precision.
    #[inline(always)]
    fn div_ceil(self, rhs: Self) -> Self {
        (self + rhs - Self::ONE) / self
    }

    /// Round up `self` so that `self.align_to(rhs) % rhs == 0`.
    /// `rhs` has to be a power of two, otherwise the result is undefined.
    #[inline(always)]
    fn align_to(self, rhs: Self) -> Self {
        self + self.pad_align_to(rhs)
    }

    /// Compute the padding needed for alignment, that is, the smallest
    /// number such that `((value + pad_align_to(value, align_to) & (align_to - 1) == 0`.
    /// `rhs` has to be a power of two, otherwise the result is undefined.
    #[inline(always)]
    fn pad_align_to(self, rhs: Self) -> Self {
        debug_assert!(rhs.is_power_of_two());
        self.wrapping_neg() & (rhs - Self::ONE)
    }

    /// Checked addition with a signed integer. Computes self + rhs, returning
    /// None if overflow occurred.
    fn checked_add_signed(self, rhs: Self::SignedInt) -> Option<Self>;
    /// Saturating integer addition. Computes self + rhs, saturating at the
    /// numeric bounds instead of overflowing.
    fn saturating_add_signed(self, rhs: Self::SignedInt) -> Self;
    /// Wrapping (modular) addition with a signed integer. Computes self + rhs,
    /// wrapping around at the boundary of the type.
    fn wrapping_add_signed(self, rhs: Self::SignedInt) -> Self;

    /// Returns the smallest power of two greater than or equal to n.
    /// If the next power of two is greater than the type’s maximum value, None
    /// is returned, otherwise the power of two is wrapped in Some.
    fn checked_next_power_of_two(self) -> Option<Self>;
    /// Returns true if and only if self == 2^k for some k.
    fn is_power_of_two(self) -> bool;
    /// Returns the smallest power of two greater than or equal to self.
    /// When return value overflows (i.e., self > (1 << (N-1)) for type uN), it
    /// panics in debug mode and the return value is wrapped to 0 in release mode
    /// (the only situation in which method can return 0).
    fn next_power_of_two(self) -> Self;

    /// Arithmetic shift right `self` by `rhs`, returing the result.
    /// Overshifting by larger than [`AsBytes::BITS`] will result in either
    /// `!0` or `0`, depending on the sign bit of `self`.
    fn overflow_sar(self, rhs: Self) -> Self;
}
