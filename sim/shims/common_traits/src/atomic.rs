use crate::IsAtomic;
use crate::{False, True};
use core::sync::atomic::Ordering;

/// A trait for types that have an equivalent atomic type.
pub trait IntoAtomic: IsAtomic<Atomic = False> + Sized + Send + Sync {
    /// The atomic variant of the type.
    type AtomicType: Atomic<NonAtomicType = Self>;
    /// Convert `self` into the atomic variant of `Self`
    fn to_atomic(self) -> Self::AtomicType;

    /// Convert an array of non-atomic values into an array of atomic values.
    fn into_atomic_array<const N: usize>(data: [Self; N]) -> [Self::AtomicType; N];
    /// Convert an array of atomic values into an array of non-atomic values.
    fn from_atomic_array<const N: usize>(data: [Self::AtomicType; N]) -> [Self; N];

    /// Convert a slice of non-atomic values into a slice of atomic values.
    fn get_mut_slice(this: &mut [Self::AtomicType]) -> &mut [Self];
    /// Convert a slice of atomic values into a slice of non-atomic values.
    fn from_mut_slice(this: &mut [Self]) -> &mut [Self::AtomicType];

    /// Convert a reference to an array of non-atomic values into a reference to an array of atomic values.
    fn get_mut_array<const N: usize>(this: &mut [Self::AtomicType; N]) -> &mut [Self; N];
    /// Convert a reference to an array of atomic values into a reference to an array of non-atomic values.
    fn from_mut_array<const N: usize>(this: &mut [Self; N]) -> &mut [Self::AtomicType; N];
}

/// Values that can be atomically read and written
pub trait Atomic: IsAtomic<Atomic = True> + Sized + Send + Sync {
    /// The non atomic variant of this type
    type NonAtomicType: IntoAtomic<AtomicType = Self>;

    /// Creates a new atomic integer.
    fn new(value: Self::NonAtomicType) -> Self;
    /// Loads a value from the atomic integer.
    ///
    /// load takes an [`Ordering`](`core::sync::atomic::Ordering`) argument which describes
    /// the memory ordering of this operation.
    /// Possible values are [`SeqCst`](`core::sync::atomic::Ordering::SeqCst`),
    ///[`Acquire`](`core::sync::atomic::Ordering::Acquire`) and [`Relaxed`](`core::sync::atomic::Ordering::Relaxed`).
    ///
    /// # Panics
    /// Panics if order is [`Release`](`core::sync::atomic::Ordering::Release`) or [`AcqRel`](`core::sync::atomic::Ordering::AcqRel`).
    fn load(&self, order: Ordering) -> Self::NonAtomicType;
    /// Stores a value into the atomic integer.
    /// load takes an [`Ordering`](`core::sync::atomic::Ordering`) argument which describes
    /// the memory ordering of this operation.
    /// Possible values are [`SeqCst`](`core::sync::atomic::Ordering::SeqCst`),
    /// [`Release`](`core::sync::atomic::Ordering::Release`) and [`Relaxed`](`core::sync::atomic::Ordering::Relaxed`).
    ///
    /// # Panics
    /// Panics if order is [`Acquire`](`core::sync::atomic::Ordering::Acquire`) or
    /// [`AcqRel`](`core::sync::atomic::Ordering::AcqRel`).
    fn store(&self, value: Self::NonAtomicType, order: Ordering);
    /// Returns a mutable reference to the underlying integer.
    ///
    /// This is safe because the mutable reference guarantees that no other
    /// threads are concurrently accessing the atomic data.
    fn get_mut(&mut self) -> &mut Self::NonAtomicType;
    /// Consumes the atomic and returns the contained value.
    ///
    /// This is safe because passing `self` by value guarantees that no other
    /// threads are concurrently accessing the atomic data.
    fn into_inner(self) -> Self::NonAtomicType;

    fn into_non_atomic_array<const N: usize>(data: [Self; N]) -> [Self::NonAtomicType; N];
    fn from_non_atomic_array<const N: usize>(data: [Self::NonAtomicType; N]) -> [Self; N];

    fn get_mut_slice(this: &mut [Self]) -> &mut [Self::NonAtomicType];
    fn from_mut_slice(this: &mut [Self::NonAtomicType]) -> &mut [Self];

    fn get_mut_array<const N: usize>(this: &mut [Self; N]) -> &mut [Self::NonAtomicType; N];
    fn from_mut_array<const N: usize>(this: &mut [Self::NonAtomicType; N]) -> &mut [Self; N];

    /// Stores a value into the atomic integer if the current value is the same
    /// as the current value.
    ///
    /// The return value is a result indicating whether the new value was
    /// written and containing the previous value. On success this value is
    /// guaranteed to be equal to current.
    ///
    /// [`compare_exchange`](`Atomic::compare_exchange`) takes two
    /// [`Ordering`](`core::sync::atomic::Ordering`)
    /// arguments to describe the memory ordering of this operation. success
    /// describes the required ordering for the read-modify-write operation that
    /// takes place if the comparison with current succeeds. failure describes
    /// the required ordering for the load operation that takes place when the
    /// comparison fails. Using [`Acquire`](`core::sync::atomic::Ordering::Acquire`)
    /// as success ordering makes the store part of this operation
    /// [`Relaxed`](`core::sync::atomic::Ordering::Relaxed`), and
    /// using [`Release`](`core::sync::atomic::Ordering::Release`) makes the
    /// successful load [`Relaxed`](`core::sync::atomic::Ordering::Relaxed`).
    /// The failure ordering can only be [`SeqCst`](`core::sync::atomic::Ordering::SeqCst`),
    /// [`Acquire`](`core::sync::atomic::Ordering::Acquire`) or
    /// [`Relaxed`](`core::sync::atomic::Ordering::Relaxed`).
    ///
    /// Note: This method is only available on platforms that support atomic
    /// operations on the given type.
    fn compare_exchange(
        &self,
        current: Self::NonAtomicType,
        new: Self::NonAtomicType,
        success: Ordering,
        failure: Ordering,
    ) -> Result<Self::NonAtomicType, Self::NonAtomicType>;

    /// Stores a value into the atomic integer if the current value is the same
    /// as the current value.
    ///
    /// Unlike [`Atomic::compare_exchange`], this function is allowed to
    /// spuriously fail even when the comparison succeeds, which can result in
    /// more efficient code on some platforms. The return value is a result
    /// indicating whether the new value was written and containing the previous
    /// value.
    ///
    /// [`Atomic::compare_exchange_weak`] takes two
    /// [`Ordering`](`core::sync::atomic::Ordering`) arguments to describe the
    /// memory ordering of this operation. success describes the required
    /// ordering for the read-modify-write operation that takes place if the
    /// comparison with current succeeds. failure describes the required
    /// ordering for the load operation that takes place when the comparison
    /// fails. Using [`Acquire`](`core::sync::atomic::Ordering::Acquire`) as
    /// success ordering makes the store part of this operation
    /// [`Relaxed`](`core::sync::atomic::Ordering::Relaxed`), and using
    /// [`Release`](`core::sync::atomic::Ordering::Release`) makes the
    /// successful load [`Relaxed`](`core::sync::atomic::Ordering::Relaxed`).
    /// The failure ordering can only be [`SeqCst`](`core::sync::atomic::Ordering::SeqCst`),
    /// [`Acquire`](`core::sync::atomic::Ordering::Acquire`) or
    /// [`Relaxed`](`core::sync::atomic::Ordering::Relaxed`).
    ///
    /// Note: This method is only available on platforms that support atomic
    /// operations on the given type.
    fn compare_exchange_weak(
        &self,
        current: Self::NonAtomicType,
        new: Self::NonAtomicType,
        success: Ordering,
        failure: Ordering,
    ) -> Result<Self::NonAtomicType, Self::NonAtomicType>;

    /// Stores a value into the atomic integer, returning the previous value.
    ///
    /// [`Atomic::swap`] takes an [`Ordering`](`core::sync::atomic::Ordering`) argument
    /// which describes the memory ordering of this operation. All ordering
    /// modes are possible.
    /// Note that using [`Acquire`](`core::sync::atomic::Ordering::Acquire`)
    /// makes the store part of this operation
    /// [`Relaxed`](`core::sync::atomic::Ordering::Relaxed`), and using
    /// [`Release`](`core::sync::atomic::Ordering::Release`) makes the load part
    /// [`Relaxed`](`core::sync::atomic::Ordering::Relaxed`).
    ///
    /// Note: This method is only available on platforms that support atomic
    /// operations on the given type.
    fn swap(&self, new: Self::NonAtomicType, order: Ordering) -> Self::NonAtomicType;

    /// Fetches the value, and applies a function to it that returns an optional
    /// new value. Returns a [`Result`](`core::result::Result`) of
    /// `Ok(previous_value)` if the function returned `Some(_)`, else
    /// `Err(previous_value)`.
    ///
    /// Note: This may call the function multiple times if the value has been
    /// changed from other threads in the meantime, as long as the function
    /// returns `Some(_)`, but the function will have been applied only once to
    /// the stored value.
    ///
    /// [`Atomic::fetch_update`] takes two [`Ordering`](`core::sync::atomic::Ordering`)
    ///  arguments to describe the memory ordering of this operation. The first
    /// describes the required ordering for when the operation finally succeeds
    /// while the second describes the required ordering for loads. These
    /// correspond to the success and failure orderings of
    /// [`Atomic::compare_exchange`] respectively.
    ///
    /// Using [`Acquire`](`core::sync::atomic::Ordering::Acquire`) as success
    /// ordering makes the store part of this operation
    /// [`Relaxed`](`core::sync::atomic::Ordering::Relaxed`), and using
    /// [`Release`](`core::sync::atomic::Ordering::Release`) makes the final
    /// successful load
    /// [`Relaxed`](`core::sync::atomic::Ordering::Relaxed`).
    /// The failure ordering can only be
    /// [`SeqCst`](`core::sync::atomic::Ordering::SeqCst`),
    /// [`Acquire`](`core::sync::atomic::Ordering::Acquire`) or
    /// [`Relaxed`](`core::sync::atomic::Ordering::Relaxed`).
    ///
    /// Note: This method is only available on platforms that support atomic
    /// operations on usize.
    ///
    /// # Considerations
    /// This method is not magic; it is not provided by the hardware. It is
    /// implemented in terms of [`Atomic::compare_exchange_weak`], and suffers
    /// from the same drawbacks. In particular, this method will not circumvent
    /// the ABA Problem.
    fn fetch_update<F>(
        &self,
        set_order: Ordering,
        fetch_order: Ordering,
        f: F,
    ) -> Result<Self::NonAtomicType, Self::NonAtomicType>
    where
        F: FnMut(Self::NonAtomicType) -> Option<Self::NonAtomicType>;
}
