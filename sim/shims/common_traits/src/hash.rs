/// An generalization of [`core::hash::Hasher`] that doesn't force the output to
/// be [`u64`]
pub trait Hasher {
    type Result;
    fn finish(&self) -> Self::Result;
    fn write(&mut self, bytes: &[u8]);
}

/// An hasher that has extra parameters in initalization
pub trait SeedableHasher {
    type Seed;
    fn new(seed: Self::Seed) -> Self;
}

/// The analog of [`core::hash::Hash`] but that uses [`Hash`]
pub trait Hash {
    fn hash<H: Hasher>(&self, state: &mut H);
}
