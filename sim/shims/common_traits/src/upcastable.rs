/// `UpcastableInto : UpcastableFrom = Into : From`, It's easier to use to
/// specify bounds on generic variables
pub trait UpcastableInto<W>: Sized {
    /// Call `W::upcast_from(self)`
    fn upcast(self) -> W;
}

/// Trait for primitive integers, the expected behaviour for unsigned integers
/// is to zero extend the value, while for signed integers it will sign-extend
/// it to the possibly bigger UnsignedInt size.
pub trait UpcastableFrom<W>: Sized {
    /// Extend the current UnsignedInt to a possibly bigger size.
    fn upcast_from(value: W) -> Self;
}

/// UpcastableFrom implies UpcastableInto
impl<T, U> UpcastableInto<U> for T
where
    U: UpcastableFrom<T>,
{
    #[inline(always)]
    fn upcast(self) -> U {
        U::upcast_from(self)
    }
}

/// Riflexivity
impl<T> UpcastableFrom<T> for T {
    #[inline(always)]
    fn upcast_from(value: T) -> Self {
        value
    }
}

macro_rules! impl_upcasts {
    ($base_type:ty, $($ty:ty,)*) => {$(
impl UpcastableFrom<$base_type> for $ty {
    #[inline(always)]
    fn upcast_from(value: $base_type) -> Self {
        value as $ty
    }
}
    )*
    impl_upcasts!($($ty,)*);
};
    () => {};
}

impl_upcasts!(u8, u16, u32, u64, u128,);
impl_upcasts!(i8, i16, i32, i64, i128,);

#[cfg(any(
    target_pointer_width = "16",
    target_pointer_width = "32",
    target_pointer_width = "64",
))]
impl UpcastableFrom<i8> for isize {
    #[inline(always)]
    fn upcast_from(value: i8) -> Self {
        value as isize
    }
}

#[cfg(any(
    target_pointer_width = "16",
    target_pointer_width = "32",
    target_pointer_width = "64",
))]
impl UpcastableFrom<i16> for isize {
    #[inline(always)]
    fn upcast_from(value: i16) -> Self {
        value as isize
    }
}

#[cfg(target_pointer_width = "16")]
impl UpcastableFrom<isize> for i16 {
    #[inline(always)]
    fn upcast_from(value: isize) -> Self {
        value as i16
    }
}

#[cfg(any(target_pointer_width = "32", target_pointer_width = "64",))]
impl UpcastableFrom<i32> for isize {
    #[inline(always)]
    fn upcast_from(value: i32) -> Self {
        value as isize
    }
}

#[cfg(any(target_pointer_width = "16", target_pointer_width = "32",))]
impl UpcastableFrom<isize> for i32 {
    #[inline(always)]
    fn upcast_from(value: isize) -> Self {
        value as i32
    }
}

#[cfg(target_pointer_width = "64")]
impl UpcastableFrom<i64> for isize {
    #[inline(always)]
    fn upcast_from(value: i64) -> Self {
        value as isize
    }
}

#[cfg(any(
    target_pointer_width = "16",
    target_pointer_width = "32",
    target_pointer_width = "64",
))]
impl UpcastableFrom<isize> for i64 {
    #[inline(always)]
    fn upcast_from(value: isize) -> Self {
        value as i64
    }
}

#[cfg(any(
    target_pointer_width = "16",
    target_pointer_width = "32",
    target_pointer_width = "64",
))]
impl UpcastableFrom<isize> for i128 {
    #[inline(always)]
    fn upcast_from(value: isize) -> Self {
        value as i128
    }
}

#[cfg(any(
    target_pointer_width = "16",
    target_pointer_width = "32",
    target_pointer_width = "64",
))]
impl UpcastableFrom<u8> for usize {
    #[inline(always)]
    fn upcast_from(value: u8) -> Self {
        value as usize
    }
}

#[cfg(any(
    target_pointer_width = "16",
    target_pointer_width = "32",
    target_pointer_width = "64",
))]
impl UpcastableFrom<u16> for usize {
    #[inline(always)]
    fn upcast_from(value: u16) -> Self {
        value as usize
    }
}

#[cfg(target_pointer_width = "16")]
impl UpcastableFrom<usize> for u16 {
    #[inline(always)]
    fn upcast_from(value: usize) -> Self {
        value as u16
    }
}

#[cfg(any(target_pointer_width = "32", target_pointer_width = "64",))]
impl UpcastableFrom<u32> for usize {
    #[inline(always)]
    fn upcast_from(value: u32) -> Self {
        value as usize
    }
}

#[cfg(any(target_pointer_width = "16", target_pointer_width = "32",))]
impl UpcastableFrom<usize> for u32 {
    #[inline(always)]
    fn upcast_from(value: usize) -> Self {
        value as u32
    }
}

#[cfg(target_pointer_width = "64")]
impl UpcastableFrom<u64> for usize {
    #[inline(always)]
    fn upcast_from(value: u64) -> Self {
        value as usize
    }
}

#[cfg(any(
    target_pointer_width = "16",
    target_pointer_width = "32",
    target_pointer_width = "64",
))]
impl UpcastableFrom<usize> for u64 {
    #[inline(always)]
    fn upcast_from(value: usize) -> Self {
        value as u64
    }
}

#[cfg(any(
    target_pointer_width = "16",
    target_pointer_width = "32",
    target_pointer_width = "64",
))]
impl UpcastableFrom<usize> for u128 {
    #[inline(always)]
    fn upcast_from(value: usize) -> Self {
        value as u128
    }
}

impl UpcastableFrom<f32> for f64 {
    #[inline(always)]
    fn upcast_from(value: f32) -> Self {
        value as f64
    }
}

#[cfg(feature = "half")]
mod half_impl {
    use super::*;
    impl UpcastableFrom<half::f16> for f32 {
        #[inline(always)]
        fn upcast_from(value: half::f16) -> Self {
            value.to_f32()
        }
    }
    impl UpcastableFrom<half::bf16> for f32 {
        #[inline(always)]
        fn upcast_from(value: half::bf16) -> Self {
            value.to_f32()
        }
    }
    impl UpcastableFrom<half::f16> for f64 {
        #[inline(always)]
        fn upcast_from(value: half::f16) -> Self {
            value.to_f64()
        }
    }
    impl UpcastableFrom<half::bf16> for f64 {
        #[inline(always)]
        fn upcast_from(value: half::bf16) -> Self {
            value.to_f64()
        }
    }
}
