use crate::Integer;

/// Fast division, modulo reduction, and an alternative operation that maps a number between 0 and `n`.
///
///
///
/// # Reference
/// <https://lemire.me/blog/2016/06/27/a-fast-alternative-to-the-modulo-reduction/>
/// <https://github.com/lemire/fastmod>
/// <https://github.com/lemire/fastrange>
pub trait FastRange: Integer + Sized {
    type MaskType: Integer + Copy;
    /// Given a value "UnsignedInt", produces an integer in [0,p) without division.
    /// The function is as fair as possible in the sense that if you iterate
    /// through all possible values of "UnsignedInt", then you will generate all
    /// possible outputs as uniformly as possible.
    ///
    /// This is equivalent to computing ⌊n * (UnsignedInt / 2^w)⌋ in fixed comma
    fn fast_range(&self, d: Self) -> Self;
    //. fastmod computes (a / d) given precomputed M for d>1,
    fn fast_div_mask(&self, mask: Self::MaskType) -> Self;
    /// fastmod computes (a % d) given precomputed M,
    fn fast_mod_mask(&self, d: Self, mask: Self::MaskType) -> Self;

    // fastmod computes (a / d) for d>1
    #[inline(always)]
    fn fast_div(&self, d: Self) -> Self {
        let mask = d.compute_mask_fast();
        self.fast_div_mask(mask)
    }
    /// fastmod computes (a % d)
    #[inline(always)]
    fn fast_mod(&self, d: Self) -> Self {
        let mask = d.compute_mask_fast();
        self.fast_mod_mask(d, mask)
    }
    /// checks whether n % d == 0
    #[inline(always)]
    fn fast_is_divisible(&self, d: Self) -> bool {
        let mask = d.compute_mask_fast();
        self.fast_is_divisible_mask(mask)
    }

    /// Compute the mask needed by `fast_div_mask` and `fast_mod_mask`
    /// M = floor( (1<<64) / d ) + 1
    ///
    // you must have that d is different from 0 and -2147483648
    // if d = -1 and a = -2147483648, the result is undefined
    fn compute_mask_fast(&self) -> Self::MaskType;

    /// fastmod computes (a % d) == 0 given precomputed M,
    fn fast_is_divisible_mask(&self, mask: Self::MaskType) -> bool;
}

impl FastRange for u8 {
    type MaskType = u16;
    #[inline(always)]
    fn fast_range(&self, d: Self) -> Self {
        ((*self as u16 * d as u16) >> 8) as u8
    }
    #[inline(always)]
    fn fast_div_mask(&self, mask: Self::MaskType) -> Self {
        ((*self as u32).wrapping_mul(mask as u32) >> 16) as u8
    }
    #[inline(always)]
    fn fast_mod_mask(&self, d: Self, mask: Self::MaskType) -> Self {
        debug_assert_eq!(mask, d.compute_mask_fast());
        let low_bits = (*self as u16).wrapping_mul(mask);
        ((low_bits as u32).wrapping_mul(d as u32) >> 16) as u8
    }
    #[inline(always)]
    fn compute_mask_fast(&self) -> Self::MaskType {
        (u16::MAX / *self as u16).wrapping_add(1)
    }
    #[inline(always)]
    fn fast_is_divisible_mask(&self, mask: Self::MaskType) -> bool {
        (*self as u16).wrapping_mul(mask) <= mask.wrapping_sub(1)
    }
}

impl FastRange for u16 {
    type MaskType = u32;
    #[inline(always)]
    fn fast_range(&self, d: Self) -> Self {
        ((*self as u32 * d as u32) >> 16) as u16
    }
    #[inline(always)]
    fn fast_div_mask(&self, mask: Self::MaskType) -> Self {
        ((*self as u64).wrapping_mul(mask as u64) >> 32) as u16
    }
    #[inline(always)]
    fn fast_mod_mask(&self, d: Self, mask: Self::MaskType) -> Self {
        debug_assert_eq!(mask, d.compute_mask_fast());
        let low_bits = (*self as u32).wrapping_mul(mask);
        ((low_bits as u64).wrapping_mul(d as u64) >> 32) as u16
    }
    #[inline(always)]
    fn compute_mask_fast(&self) -> Self::MaskType {
        (u32::MAX / *self as u32).wrapping_add(1)
    }
    #[inline(always)]
    fn fast_is_divisible_mask(&self, mask: Self::MaskType) -> bool {
        (*self as u32).wrapping_mul(mask) <= mask.wrapping_sub(1)
    }
}

impl FastRange for u32 {
    type MaskType = u64;
    #[inline(always)]
    fn fast_range(&self, d: Self) -> Self {
        ((*self as u64).wrapping_mul(d as u64) >> 32) as u32
    }
    #[inline(always)]
    fn fast_div_mask(&self, mask: Self::MaskType) -> Self {
        ((*self as u128).wrapping_mul(mask as u128) >> 64) as u32
    }
    #[inline(always)]
    fn fast_mod_mask(&self, d: Self, mask: Self::MaskType) -> Self {
        debug_assert_eq!(mask, d.compute_mask_fast());
        let low_bits = (*self as u64).wrapping_mul(mask);
        ((low_bits as u128).wrapping_mul(d as u128) >> 64) as u32
    }
    #[inline(always)]
    fn compute_mask_fast(&self) -> Self::MaskType {
        (u64::MAX / *self as u64).wrapping_add(1)
    }
    #[inline(always)]
    fn fast_is_divisible_mask(&self, mask: Self::MaskType) -> bool {
        (*self as u64).wrapping_mul(mask) <= mask.wrapping_sub(1)
    }
}

#[inline(always)]
/// Do a 128-bit multiply and return the top 64 bits
fn mul128_u64(low_bits: u128, d: u64) -> u64 {
    let mut bottom_half = (low_bits & (u64::MAX as u128)).wrapping_mul(d as u128); // Won't overflow but avoid check
    bottom_half >>= 64; // Only need the top 64 bits, as we'll shift the lower half away;
    let top_half = (low_bits >> 64).wrapping_mul(d as u128);
    let mut both_halves = bottom_half + top_half; // Both halves are already shifted down by 64
    both_halves >>= 64; // Get top half of both_halves
    both_halves as u64
}

impl FastRange for u64 {
    type MaskType = u128;
    #[inline(always)]
    fn fast_range(&self, d: Self) -> Self {
        ((*self as u128).wrapping_mul(d as u128) >> 64) as u64
    }
    #[inline(always)]
    fn fast_div_mask(&self, mask: Self::MaskType) -> Self {
        mul128_u64(mask, *self)
    }
    #[inline(always)]
    fn fast_mod_mask(&self, d: Self, mask: Self::MaskType) -> Self {
        debug_assert_eq!(mask, d.compute_mask_fast());
        let low_bits = (*self as u128).wrapping_mul(mask);
        mul128_u64(low_bits, d)
    }
    #[inline(always)]
    fn compute_mask_fast(&self) -> Self::MaskType {
        // what follows is just ((__uint128_t)0 - 1) / d) + 1 spelled out
        let mut mask: u128 = u64::MAX as u128;
        mask <<= 64;
        mask |= u64::MAX as u128;
        mask /= *self as u128;
        mask = mask.wrapping_add(1);
        mask
    }
    #[inline(always)]
    fn fast_is_divisible_mask(&self, mask: Self::MaskType) -> bool {
        (*self as u128).wrapping_mul(mask) <= mask.wrapping_sub(1)
    }
}

macro_rules! impl_usize {
    ($ty:ty, $pw:literal, $mask:ty) => {
        #[cfg(target_pointer_width = $pw)]
        impl FastRange for usize {
            type MaskType = $mask;

            #[inline(always)]
            fn fast_range(&self, d: Self) -> Self {
                (*self as $ty).fast_range(d as $ty) as usize
            }

            #[inline(always)]
            fn fast_div_mask(&self, mask: Self::MaskType) -> Self {
                (*self as $ty).fast_div_mask(mask) as usize
            }
            #[inline(always)]
            fn fast_mod_mask(&self, d: Self, mask: Self::MaskType) -> Self {
                (*self as $ty).fast_mod_mask(d as $ty, mask) as usize
            }
            #[inline(always)]
            fn compute_mask_fast(&self) -> Self::MaskType {
                (*self as $ty).compute_mask_fast() as Self::MaskType
            }
            #[inline(always)]
            fn fast_is_divisible_mask(&self, mask: Self::MaskType) -> bool {
                (*self as $ty).fast_is_divisible_mask(mask)
            }
        }
    };
}

impl_usize!(u64, "64", u128);
impl_usize!(u32, "32", u64);
impl_usize!(u16, "16", u32);
