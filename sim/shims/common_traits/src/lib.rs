#![cfg_attr(not(feature = "std"), no_std)]
#![cfg_attr(feature = "simd", feature(portable_simd))]
#![allow(incomplete_features)]
#![cfg_attr(feature = "simd", feature(generic_const_exprs))]
#![deny(unconditional_recursion)]
#![doc = include_str!("../README.md")]

#[cfg(feature = "alloc")]
extern crate alloc;

mod double_half;
pub use double_half::{DoubleType, HalfType};

mod unsigned_int;
pub use unsigned_int::UnsignedInt;

mod integer;
pub use integer::Integer;

mod fastrange;
pub use fastrange::FastRange;

mod select_in_word;
pub use select_in_word::SelectInWord;

mod selectors;
pub use selectors::{
    BooleanSelector, False, IsAtomic, IsFloat, IsInteger, IsNonZero, IsSigned, NonZero, True,
};

mod signed_int;
pub use signed_int::SignedInt;

mod atomic;
pub use atomic::{Atomic, IntoAtomic};

mod float;
pub use float::Float;

mod number;
pub use number::FiniteRangeNumber;
pub use number::Number;

mod atomic_float;
#[cfg(feature = "half")]
pub use atomic_float::{AtomicBF16, AtomicF16};
pub use atomic_float::{AtomicF32, AtomicF64, AtomicFloat};

mod atomic_number;
pub use atomic_number::AtomicFiniteRangeNumber;
pub use atomic_number::AtomicNumber;

mod atomic_integer;
pub use atomic_integer::{AtomicInteger, AtomicSignedInt, AtomicUnsignedInt};

mod impls;

mod rnd;
pub use rnd::{Rng, RngNext};

mod to;
pub use to::To;

mod splat;
pub use splat::Splat;

mod sequence;
pub use sequence::{Sequence, SequenceGrowable, SequenceMut};

mod hash;
pub use hash::{Hash, Hasher, SeedableHasher};

mod upcastable;
pub use upcastable::{UpcastableFrom, UpcastableInto};

mod downcastable;
pub use downcastable::{DowncastableFrom, DowncastableInto};

mod castable;
pub use castable::{CastableFrom, CastableInto};

/// A trait for types that have a fixed-length representation as a sequence of bytes.
/// This includes all standard numerical scalar types.
///
/// It is required that implementations of `AsRef<[u8]>` and `AsMut<[u8]>`
/// return a slice of length [`AsBytes::BYTES`].
pub trait AsBytes: Sized + Send + Sync + Default {
    /// Length in bytes of the representation of the type.
    const BYTES: usize;
    /// Convenience costant field equal to [`AsBytes::BYTES`] * 8.
    const BITS: usize;
    /// The byte array that can be use to build the value. It must always be
    /// `[u8; Self::BYTES]` (but with the present Rust syntax we cannot enforce it).
    type Bytes: AsRef<[u8]> + AsMut<[u8]> + Sized + Send + Sync + Copy + Default;
}

/// Traits for types that can be created safely from an array of bytes.
pub trait FromBytes: AsBytes {
    /// Create a native endian integer value from its representation as a byte
    /// array in big endian.
    fn from_be_bytes(bytes: Self::Bytes) -> Self;

    /// Create a native endian integer value from its representation as a byte
    /// array in little endian.
    fn from_le_bytes(bytes: Self::Bytes) -> Self;

    /// Create a native endian integer value from its memory representation as
    /// a byte array in native endianness.
    /// As the target platform’s native endianness is used, portable code likely
    /// wants to use from_be_bytes or from_le_bytes, as appropriate instead.
    fn from_ne_bytes(bytes: Self::Bytes) -> Self;
}

/// Traits for types that can be cast to an array of bytes.
pub trait ToBytes: AsBytes {
    /// Return the memory representation of this integer as a byte array in
    /// big-endian (network) byte order.
    fn to_be_bytes(self) -> Self::Bytes;

    /// Return the memory representation of this integer as a byte array in
    /// little-endian byte order.
    fn to_le_bytes(self) -> Self::Bytes;

    /// Return the memory representation of this integer as a byte array in
    /// native byte order.
    /// As the target platform’s native endianness is used, portable code should
    /// use to_be_bytes or to_le_bytes, as appropriate, instead.
    fn to_ne_bytes(self) -> Self::Bytes;
}

/// An assert macro to check invariants in debug mode and to optimize them away in release mode.
/// This has the same syntax as the [`std::assert`] macro.
/// - On debug mode, i.e. when debug_assertions are enabled, it will call [`std::assert`].
/// - On release mode it will call [`core::hint::unreachable_unchecked`].
///
/// The core difference with [`std::assert`] is that this macro will not have
/// the check in release mode, because the compiler will assume the invariant
/// holds.
///
/// # Example:
/// You can double check on [compiler explorer](https://godbolt.org/z/G3K31a93o).
/// ```rust
/// use common_traits::invariant;
/// pub fn test1(x: usize) -> u32 {
///     x.ilog2()
/// }
///
/// pub fn test2(x: usize) -> u32 {
///     invariant!(x > 0, "x must be positive");
///     x.ilog2()
/// }
/// ```
/// will generate respectively:
/// ```x86asm
/// test    rdi, rdi
/// je      .LBB0_2
/// bsr     rax, rdi
/// ret
/// .LBB0_2:
/// push    rax
/// lea     rdi, [rip + .L__unnamed_1]
/// call    qword ptr [rip + core::num::int_log10::panic_for_nonpositive_argument::h3a8d3f879c6e5198@GOTPCREL]
/// ```
/// and
/// ```x86asm
/// bsr     rax, rdi
/// ret
/// ```
#[macro_export]
macro_rules! invariant {
    ($cond:expr $(,)?) => {
        {
            #[cfg(debug_assertions)]
            {
                assert!($cond);
            }
            #[cfg(not(debug_assertions))]
            {
                if !($cond) {
                    unsafe{
                        core::hint::unreachable_unchecked();
                    }
                }
            }
        }
    };
    ($cond:expr, $($arg:tt)+) => {
        {
            #[cfg(debug_assertions)]
            {
                assert!($cond, $($arg)+);
            }
            #[cfg(not(debug_assertions))]
            {
                if !($cond) {
                    unsafe{
                        core::hint::unreachable_unchecked();
                    }
                }
            }
        }
    };
}

/// An assert_eq macro to check invariants in debug mode and to optimize them away in release mode.
/// This has the same syntax as the [`std::assert_eq`] macro.
/// Look at [`invariant!`] for more details.
#[macro_export]
macro_rules! invariant_eq {
    ($left:expr, $right:expr $(,)?) => {
        common_traits::invariant!(($left == $right), )
    };
    ($left:expr, $right:expr, $($arg:tt)+) => {
        common_traits::invariant!(($left == $right), $($arg)+)
    };
}

/// An assert_ne macro to check invariants in debug mode and to optimize them away in release mode.
/// This has the same syntax as the [`std::assert_ne`] macro.
/// Look at [`invariant!`] for more details.
#[macro_export]
macro_rules! invariant_ne {
    ($left:expr, $right:expr $(,)?) => {
        common_traits::invariant!(($left != $right), )
    };
    ($left:expr, $right:expr, $($arg:tt)+) => {
        common_traits::invariant!(($left != $right), $($arg)+)
    };
}
