/// `DowncastableInto : DowncastableFrom = Into : From`, It's easier to use to
/// specify bounds on generic variables
pub trait DowncastableInto<W>: Sized {
    /// Call `W::downcast_from(self)`
    fn downcast(self) -> W;
}

/// Trait for primitive integers, the expected behaviour is to **truncate**
/// the bits in the UnsignedInt to the possibly smaller UnsignedInt size.
pub trait DowncastableFrom<W>: Sized {
    /// Truncate the current UnsignedInt to a possibly smaller size
    fn downcast_from(value: W) -> Self;
}

/// DowncastableFrom implies DowncastableInto
impl<T, U> DowncastableInto<U> for T
where
    U: DowncastableFrom<T>,
{
    #[inline(always)]
    fn downcast(self) -> U {
        U::downcast_from(self)
    }
}

/// Riflexivity
impl<T> DowncastableFrom<T> for T {
    #[inline(always)]
    fn downcast_from(value: T) -> Self {
        value
    }
}

macro_rules! impl_downcasts {
    ($base_type:ty, $($ty:ty,)*) => {$(
impl DowncastableFrom<$base_type> for $ty {
    #[inline(always)]
    fn downcast_from(value: $base_type) -> Self {
        value as $ty
    }
}
    )*
    impl_downcasts!($($ty,)*);
};
    () => {};
}

impl_downcasts!(u128, u64, u32, u16, u8,);
impl_downcasts!(i128, i64, i32, i16, i8,);

#[cfg(any(
    target_pointer_width = "16",
    target_pointer_width = "32",
    target_pointer_width = "64",
))]
impl DowncastableFrom<isize> for i8 {
    #[inline(always)]
    fn downcast_from(value: isize) -> Self {
        value as i8
    }
}

#[cfg(any(
    target_pointer_width = "16",
    target_pointer_width = "32",
    target_pointer_width = "64",
))]
impl DowncastableFrom<isize> for i16 {
    #[inline(always)]
    fn downcast_from(value: isize) -> Self {
        value as i16
    }
}
#[cfg(target_pointer_width = "16")]
impl DowncastableFrom<i16> for isize {
    #[inline(always)]
    fn downcast_from(value: i16) -> Self {
        value as isize
    }
}

#[cfg(any(target_pointer_width = "32", target_pointer_width = "64",))]
impl DowncastableFrom<isize> for i32 {
    #[inline(always)]
    fn downcast_from(value: isize) -> Self {
        value as i32
    }
}

#[cfg(any(target_pointer_width = "16", target_pointer_width = "32",))]
impl DowncastableFrom<i32> for isize {
    #[inline(always)]
    fn downcast_from(value: i32) -> Self {
        value as isize
    }
}

#[cfg(target_pointer_width = "64")]
impl DowncastableFrom<isize> for i64 {
    #[inline(always)]
    fn downcast_from(value: isize) -> Self {
        value as i64
    }
}

#[cfg(any(
    target_pointer_width = "16",
    target_pointer_width = "32",
    target_pointer_width = "64",
))]
impl DowncastableFrom<i64> for isize {
    #[inline(always)]
    fn downcast_from(value: i64) -> Self {
        value as isize
    }
}

#[cfg(any(
    target_pointer_width = "16",
    target_pointer_width = "32",
    target_pointer_width = "64",
))]
impl DowncastableFrom<i128> for isize {
    #[inline(always)]
    fn downcast_from(value: i128) -> Self {
        value as isize
    }
}

#[cfg(any(
    target_pointer_width = "16",
    target_pointer_width = "32",
    target_pointer_width = "64",
))]
impl DowncastableFrom<isize> for u8 {
    #[inline(always)]
    fn downcast_from(value: isize) -> Self {
        value as u8
    }
}

#[cfg(any(
    target_pointer_width = "16",
    target_pointer_width = "32",
    target_pointer_width = "64",
))]
impl DowncastableFrom<usize> for u16 {
    #[inline(always)]
    fn downcast_from(value: usize) -> Self {
        value as u16
    }
}
#[cfg(target_pointer_width = "16")]
impl DowncastableFrom<u16> for usize {
    #[inline(always)]
    fn downcast_from(value: u16) -> Self {
        value as usize
    }
}

#[cfg(any(target_pointer_width = "32", target_pointer_width = "64",))]
impl DowncastableFrom<usize> for u32 {
    #[inline(always)]
    fn downcast_from(value: usize) -> Self {
        value as u32
    }
}

#[cfg(any(target_pointer_width = "16", target_pointer_width = "32",))]
impl DowncastableFrom<u32> for usize {
    #[inline(always)]
    fn downcast_from(value: u32) -> Self {
        value as usize
    }
}

#[cfg(target_pointer_width = "64")]
impl DowncastableFrom<usize> for u64 {
    #[inline(always)]
    fn downcast_from(value: usize) -> Self {
        value as u64
    }
}

#[cfg(any(
    target_pointer_width = "16",
    target_pointer_width = "32",
    target_pointer_width = "64",
))]
impl DowncastableFrom<u64> for usize {
    #[inline(always)]
    fn downcast_from(value: u64) -> Self {
        value as usize
    }
}

#[cfg(any(
    target_pointer_width = "16",
    target_pointer_width = "32",
    target_pointer_width = "64",
))]
impl DowncastableFrom<u128> for usize {
    #[inline(always)]
    fn downcast_from(value: u128) -> Self {
        value as usize
    }
}

impl DowncastableFrom<f64> for f32 {
    #[inline(always)]
    fn downcast_from(value: f64) -> Self {
        value as f32
    }
}

#[cfg(feature = "half")]
mod half_impl {
    use super::*;
    impl DowncastableFrom<f32> for half::f16 {
        #[inline(always)]
        fn downcast_from(value: f32) -> Self {
            half::f16::from_f32(value)
        }
    }
    impl DowncastableFrom<f32> for half::bf16 {
        #[inline(always)]
        fn downcast_from(value: f32) -> Self {
            half::bf16::from_f32(value)
        }
    }
    impl DowncastableFrom<f64> for half::f16 {
        #[inline(always)]
        fn downcast_from(value: f64) -> Self {
            half::f16::from_f64(value)
        }
    }
    impl DowncastableFrom<f64> for half::bf16 {
        #[inline(always)]
        fn downcast_from(value: f64) -> Self {
            half::bf16::from_f64(value)
        }
    }
}
