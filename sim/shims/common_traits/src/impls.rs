use crate::{
    AsBytes, Atomic, AtomicF32, AtomicF64, AtomicFiniteRangeNumber, AtomicFloat, AtomicInteger,
    AtomicNumber, AtomicSignedInt, AtomicUnsignedInt, False, FiniteRangeNumber, Float, FromBytes,
    Integer, IntoAtomic, IsAtomic, IsFloat, IsInteger, IsNonZero, IsSigned, Number, SignedInt,
    ToBytes, True, UnsignedInt,
};
#[cfg(feature = "half")]
use crate::{AtomicBF16, AtomicF16};
use core::num::{
    FpCategory, NonZeroI128, NonZeroI16, NonZeroI32, NonZeroI64, NonZeroI8, NonZeroIsize,
    NonZeroU128, NonZeroU16, NonZeroU32, NonZeroU64, NonZeroU8, NonZeroUsize,
};
use core::sync::atomic::{
    AtomicBool, AtomicI16, AtomicI32, AtomicI64, AtomicI8, AtomicIsize, AtomicU16, AtomicU32,
    AtomicU64, AtomicU8, Ordering,
};
// simulation shim: usize's atomic counterpart is the std atomic behind scheduling points
// (the fallback build `--cfg sux_verif_stdatomic` keeps the std type)
#[cfg(sux_verif_stdatomic)]
use core::sync::atomic::AtomicUsize;
#[cfg(not(sux_verif_stdatomic))]
use ::verif_rt::SimAtomicUsize as AtomicUsize;

impl<T: Atomic + AsBytes> FromBytes for T
where
    T::NonAtomicType: FromBytes + AsBytes<Bytes = T::Bytes>,
{
    #[inline(always)]
    fn from_be_bytes(bytes: Self::Bytes) -> Self {
        Self::new(<Self as Atomic>::NonAtomicType::from_be_bytes(bytes))
    }
    #[inline(always)]
    fn from_ne_bytes(bytes: Self::Bytes) -> Self {
        Self::new(<Self as Atomic>::NonAtomicType::from_ne_bytes(bytes))
    }
    #[inline(always)]
    fn from_le_bytes(bytes: Self::Bytes) -> Self {
        Self::new(<Self as Atomic>::NonAtomicType::from_le_bytes(bytes))
    }
}

macro_rules! impl_atomic_integer {
    ($aty:ty) => {
        impl AtomicNumber for $aty {
            #[inline(always)]
            fn fetch_add(
                &self,
                value: Self::NonAtomicType,
                order: Ordering,
            ) -> Self::NonAtomicType {
                ::verif_rt::sched_point_for::<Self>(105);
                <$aty>::fetch_add(self, value, order)
            }

            #[inline(always)]
            fn fetch_sub(
                &self,
                value: Self::NonAtomicType,
                order: Ordering,
            ) -> Self::NonAtomicType {
                ::verif_rt::sched_point_for::<Self>(106);
                <$aty>::fetch_sub(self, value, order)
            }
            #[inline(always)]
            fn fetch_max(
                &self,
                value: Self::NonAtomicType,
                order: Ordering,
            ) -> Self::NonAtomicType {
                ::verif_rt::sched_point_for::<Self>(107);
                <$aty>::fetch_max(self, value, order)
            }
            #[inline(always)]
            fn fetch_min(
                &self,
                value: Self::NonAtomicType,
                order: Ordering,
            ) -> Self::NonAtomicType {
                ::verif_rt::sched_point_for::<Self>(108);
                <$aty>::fetch_min(self, value, order)
            }
        }

        impl AtomicInteger for $aty {
            #[inline(always)]
            fn fetch_and(
                &self,
                value: Self::NonAtomicType,
                order: Ordering,
            ) -> Self::NonAtomicType {
                ::verif_rt::sched_point_for::<Self>(109);
                <Self>::fetch_and(self, value, order)
            }
            #[inline(always)]
            fn fetch_nand(
                &self,
                value: Self::NonAtomicType,
                order: Ordering,
            ) -> Self::NonAtomicType {
                ::verif_rt::sched_point_for::<Self>(110);
                <Self>::fetch_nand(self, value, order)
            }
            #[inline(always)]
            fn fetch_or(&self, value: Self::NonAtomicType, order: Ordering) -> Self::NonAtomicType {
                ::verif_rt::sched_point_for::<Self>(111);
                <Self>::fetch_or(self, value, order)
            }
            #[inline(always)]
            fn fetch_xor(
                &self,
                value: Self::NonAtomicType,
                order: Ordering,
            ) -> Self::NonAtomicType {
                ::verif_rt::sched_point_for::<Self>(112);
                <Self>::fetch_xor(self, value, order)
            }
        }
    };
}

macro_rules! impl_atomic_signed_int {
    ($aty:ty) => {
        impl AtomicSignedInt for $aty {}
        impl IsSigned for $aty {
            type Signed = True;
        }
    };
}

macro_rules! impl_atomic_unsigned_int {
    ($aty:ty) => {
        impl AtomicUnsignedInt for $aty {}
        impl IsSigned for $aty {
            type Signed = False;
        }
    };
}

macro_rules! impl_into_atomic {
    ($ty:ty, $aty:ty) => {
        impl IsAtomic for $ty {
            type Atomic = False;
        }
        impl IsAtomic for $aty {
            type Atomic = True;
        }

        impl AsBytes for $aty {
            const BITS: usize = <$ty>::BITS as usize;
            const BYTES: usize = <$ty>::BYTES;
            type Bytes = <$ty as AsBytes>::Bytes;
        }

        impl IntoAtomic for $ty {
            type AtomicType = $aty;

            #[inline(always)]
            fn to_atomic(self) -> Self::AtomicType {
                Self::AtomicType::new(self)
            }

            #[inline(always)]
            fn into_atomic_array<const N: usize>(data: [Self; N]) -> [Self::AtomicType; N] {
                #[allow(clippy::uninit_assumed_init)]
                let mut res: [Self::AtomicType; N] =
                    unsafe { core::mem::MaybeUninit::uninit().assume_init() };
                for i in 0..N {
                    res[i] = Self::AtomicType::new(data[i]);
                }
                res
            }

            #[inline(always)]
            fn from_atomic_array<const N: usize>(data: [Self::AtomicType; N]) -> [Self; N] {
                unsafe { *(data.as_ptr() as *const [Self; N]) }
            }

            #[inline(always)]
            fn get_mut_slice(this: &mut [Self::AtomicType]) -> &mut [Self] {
                unsafe { core::mem::transmute(this) }
            }

            #[inline(always)]
            fn from_mut_slice(this: &mut [Self]) -> &mut [Self::AtomicType] {
                unsafe { core::mem::transmute(this) }
            }

            #[inline(always)]
            fn get_mut_array<const N: usize>(this: &mut [Self::AtomicType; N]) -> &mut [Self; N] {
                unsafe { core::mem::transmute(this) }
            }

            #[inline(always)]
            fn from_mut_array<const N: usize>(this: &mut [Self; N]) -> &mut [Self::AtomicType; N] {
                unsafe { core::mem::transmute(this) }
            }
        }

        impl Atomic for $aty {
            type NonAtomicType = $ty;

            #[inline(always)]
            fn new(value: Self::NonAtomicType) -> Self {
                <$aty>::new(value)
            }

            #[inline(always)]
            fn load(&self, order: Ordering) -> Self::NonAtomicType {
                ::verif_rt::sched_point_for::<Self>(100);
                <$aty>::load(self, order)
            }

            #[inline(always)]
            fn store(&self, value: Self::NonAtomicType, order: Ordering) {
                ::verif_rt::sched_point_for::<Self>(101);
                <$aty>::store(self, value, order)
            }

            #[inline(always)]
            fn get_mut(&mut self) -> &mut Self::NonAtomicType {
                <$aty>::get_mut(self)
            }

            #[inline(always)]
            fn into_inner(self) -> Self::NonAtomicType {
                <$aty>::into_inner(self)
            }

            #[inline(always)]
            fn into_non_atomic_array<const N: usize>(data: [Self; N]) -> [Self::NonAtomicType; N] {
                unsafe { *(data.as_ptr() as *const [Self::NonAtomicType; N]) }
            }

            #[inline(always)]
            fn from_non_atomic_array<const N: usize>(data: [Self::NonAtomicType; N]) -> [Self; N] {
                let mut res: [Self; N] = unsafe { core::mem::MaybeUninit::uninit().assume_init() };
                for i in 0..N {
                    res[i] = Self::new(data[i]);
                }
                res
            }

            #[inline(always)]
            fn get_mut_slice(this: &mut [Self]) -> &mut [Self::NonAtomicType] {
                unsafe { core::mem::transmute::<&mut [Self], &mut [Self::NonAtomicType]>(this) }
            }

            #[inline(always)]
            fn from_mut_slice(this: &mut [Self::NonAtomicType]) -> &mut [Self] {
                unsafe { core::mem::transmute::<&mut [Self::NonAtomicType], &mut [Self]>(this) }
            }

            #[inline(always)]
            fn get_mut_array<const N: usize>(
                this: &mut [Self; N],
            ) -> &mut [Self::NonAtomicType; N] {
                unsafe {
                    core::mem::transmute::<&mut [Self; N], &mut [Self::NonAtomicType; N]>(this)
                }
            }

            #[inline(always)]
            fn from_mut_array<const N: usize>(
                this: &mut [Self::NonAtomicType; N],
            ) -> &mut [Self; N] {
                unsafe {
                    core::mem::transmute::<&mut [Self::NonAtomicType; N], &mut [Self; N]>(this)
                }
            }

            #[inline(always)]
            fn compare_exchange(
                &self,
                current: Self::NonAtomicType,
                new: Self::NonAtomicType,
                success: Ordering,
                failure: Ordering,
            ) -> Result<Self::NonAtomicType, Self::NonAtomicType> {
                ::verif_rt::sched_point_for::<Self>(102);
                <$aty>::compare_exchange(self, current, new, success, failure)
            }

            #[inline(always)]
            fn compare_exchange_weak(
                &self,
                current: Self::NonAtomicType,
                new: Self::NonAtomicType,
                success: Ordering,
                failure: Ordering,
            ) -> Result<Self::NonAtomicType, Self::NonAtomicType> {
                ::verif_rt::sched_point_for::<Self>(103);
                <$aty>::compare_exchange_weak(self, current, new, success, failure)
            }

            #[inline(always)]
            fn swap(&self, new: Self::NonAtomicType, order: Ordering) -> Self::NonAtomicType {
                ::verif_rt::sched_point_for::<Self>(104);
                <$aty>::swap(self, new, order)
            }
            #[inline(always)]
            fn fetch_update<F>(
                &self,
                set_order: Ordering,
                fetch_order: Ordering,
                f: F,
            ) -> Result<Self::NonAtomicType, Self::NonAtomicType>
            where
                F: FnMut(Self::NonAtomicType) -> Option<Self::NonAtomicType>,
            {
                let mut f = f;
                ::verif_rt::sched_point_for::<Self>(113);
                let mut prev = <$aty>::load(self, fetch_order);
                while let Some(next) = f(prev) {
                    ::verif_rt::sched_point_for::<Self>(114);
                    match <$aty>::compare_exchange(self, prev, next, set_order, fetch_order) {
                        x @ Ok(_) => return x,
                        Err(next_prev) => prev = next_prev,
                    }
                }
                Err(prev)
            }
        }
    };
}

macro_rules! impl_number {
    ($ty:ty) => {
        impl AsBytes for $ty {
            const BITS: usize = <$ty>::BITS as _;
            const BYTES: usize = core::mem::size_of::<$ty>() as _;
            type Bytes = [u8; core::mem::size_of::<$ty>()];
        }

        impl FromBytes for $ty {
            #[inline(always)]
            fn from_be_bytes(bytes: Self::Bytes) -> Self {
                <$ty>::from_be_bytes(bytes)
            }
            #[inline(always)]
            fn from_le_bytes(bytes: Self::Bytes) -> Self {
                <$ty>::from_le_bytes(bytes)
            }
            #[inline(always)]
            fn from_ne_bytes(bytes: Self::Bytes) -> Self {
                <$ty>::from_ne_bytes(bytes)
            }
        }

        impl ToBytes for $ty {
            #[inline(always)]
            fn to_be_bytes(self) -> Self::Bytes {
                self.to_be_bytes()
            }
            #[inline(always)]
            fn to_le_bytes(self) -> Self::Bytes {
                self.to_le_bytes()
            }
            #[inline(always)]
            fn to_ne_bytes(self) -> Self::Bytes {
                self.to_ne_bytes()
            }
        }

        impl Number for $ty {
            const ZERO: Self = 0;
            const ONE: Self = 1;

            #[inline(always)]
            fn mul_add(self, a: Self, b: Self) -> Self {
                (self * a) + b
            }
            #[inline(always)]
            fn max(self, other: Self) -> Self {
                if self >= other {
                    self
                } else {
                    other
                }
            }
            #[inline(always)]
            fn min(self, other: Self) -> Self {
                if self <= other {
                    self
                } else {
                    other
                }
            }
            #[inline(always)]
            fn clamp(self, min: Self, max: Self) -> Self {
                if self < min {
                    min
                } else if self > max {
                    max
                } else {
                    self
                }
            }
            #[inline(always)]
            #[cfg(feature = "std")]
            fn pow(self, exp: Self) -> Self {
                self.pow(exp as u32)
            }
        }

        impl FiniteRangeNumber for $ty {
            const MIN: Self = <$ty>::MIN as _;
            const MAX: Self = <$ty>::MAX as _;

            #[inline(always)]
            fn saturating_add(self, rhs: Self) -> Self {
                self.saturating_add(rhs)
            }
            #[inline(always)]
            fn saturating_div(self, rhs: Self) -> Self {
                self.saturating_div(rhs)
            }
            #[inline(always)]
            fn saturating_mul(self, rhs: Self) -> Self {
                self.saturating_mul(rhs)
            }
            #[cfg(feature = "std")]
            #[inline(always)]
            fn saturating_pow(self, rhs: Self) -> Self {
                self.saturating_pow(rhs as u32)
            }
            #[inline(always)]
            fn saturating_sub(self, rhs: Self) -> Self {
                self.saturating_sub(rhs)
            }
        }

        impl Integer for $ty {
            #[inline(always)]
            fn extract_bit(&self, bit: usize) -> bool {
                debug_assert!(bit < Self::BITS as _);
                let mask: Self = Self::ONE << bit;
                (*self & mask) != Self::ZERO
            }

            #[inline(always)]
            fn extract_bitfield(&self, start_bit: usize, end_bit: usize) -> Self {
                debug_assert!(start_bit < end_bit);
                let n_bits = Self::BITS as usize;
                debug_assert!(end_bit <= n_bits);
                let mask: Self = <Self>::MAX >> (n_bits - (end_bit - start_bit));
                (*self >> start_bit) & mask
            }

            #[inline(always)]
            fn abs_diff(self, rhs: Self) -> Self {
                self.abs_diff(rhs) as Self
            }

            #[inline(always)]
            fn div_euclid(self, rhs: Self) -> Self {
                self.div_euclid(rhs)
            }
            #[inline(always)]
            fn rem_euclid(self, rhs: Self) -> Self {
                self.rem_euclid(rhs)
            }
            #[inline(always)]
            fn to_le(self) -> Self {
                self.to_le()
            }
            #[inline(always)]
            fn swap_bytes(self) -> Self {
                self.swap_bytes()
            }
            #[inline(always)]
            fn to_be(self) -> Self {
                self.to_be()
            }
            #[inline(always)]
            fn from_le(rhs: Self) -> Self {
                <$ty>::from_le(rhs)
            }
            #[inline(always)]
            fn from_be(rhs: Self) -> Self {
                <$ty>::from_be(rhs)
            }

            #[inline(always)]
            fn overflow_shl(self, rhs: Self) -> Self {
                self.checked_shl(rhs.try_into().unwrap_or(1024))
                    .unwrap_or(0)
            }

            #[inline(always)]
            fn overflow_shr(self, rhs: Self) -> Self {
                self.checked_shr(rhs.try_into().unwrap_or(1024))
                    .unwrap_or(0)
            }

            #[inline(always)]
            fn checked_add(self, rhs: Self) -> Option<Self> {
                self.checked_add(rhs)
            }
            #[inline(always)]
            fn checked_div(self, rhs: Self) -> Option<Self> {
                self.checked_div(rhs)
            }
            #[inline(always)]
            fn checked_div_euclid(self, rhs: Self) -> Option<Self> {
                self.checked_div_euclid(rhs)
            }
            #[inline(always)]
            fn checked_mul(self, rhs: Self) -> Option<Self> {
                self.checked_mul(rhs)
            }
            #[inline(always)]
            fn checked_neg(self) -> Option<Self> {
                self.checked_neg()
            }
            #[inline(always)]
            fn checked_pow(self, exp: u32) -> Option<Self> {
                self.checked_pow(exp)
            }
            #[inline(always)]
            fn checked_rem(self, rhs: Self) -> Option<Self> {
                self.checked_rem(rhs)
            }
            #[inline(always)]
            fn checked_rem_euclid(self, rhs: Self) -> Option<Self> {
                self.checked_rem_euclid(rhs)
            }
            #[inline(always)]
            fn checked_shl(self, rhs: u32) -> Option<Self> {
                self.checked_shl(rhs)
            }
            #[inline(always)]
            fn checked_shr(self, rhs: u32) -> Option<Self> {
                self.checked_shr(rhs)
            }
            #[inline(always)]
            fn checked_sub(self, rhs: Self) -> Option<Self> {
                self.checked_sub(rhs)
            }
            #[inline(always)]
            fn count_ones(self) -> u32 {
                self.count_ones()
            }
            #[inline(always)]
            fn count_zeros(self) -> u32 {
                self.count_zeros()
            }
            #[inline(always)]
            fn leading_ones(self) -> u32 {
                self.leading_ones()
            }
            #[inline(always)]
            fn leading_zeros(self) -> u32 {
                self.leading_zeros()
            }
            #[inline(always)]
            fn reverse_bits(self) -> Self {
                self.reverse_bits()
            }
            #[inline(always)]
            fn rotate_left(self, rhs: u32) -> Self {
                self.rotate_left(rhs)
            }
            #[inline(always)]
            fn rotate_right(self, rhs: u32) -> Self {
                self.rotate_right(rhs)
            }
            #[inline(always)]
            fn trailing_ones(self) -> u32 {
                self.trailing_ones()
            }
            #[inline(always)]
            fn trailing_zeros(self) -> u32 {
                self.trailing_zeros()
            }
            #[inline(always)]
            fn wrapping_add(self, rhs: Self) -> Self {
                self.wrapping_add(rhs)
            }
            #[inline(always)]
            fn wrapping_div(self, rhs: Self) -> Self {
                self.wrapping_div(rhs)
            }
            #[inline(always)]
            fn wrapping_div_euclid(self, rhs: Self) -> Self {
                self.wrapping_div_euclid(rhs)
            }
            #[inline(always)]
            fn wrapping_mul(self, rhs: Self) -> Self {
                self.wrapping_mul(rhs)
            }
            #[inline(always)]
            fn wrapping_neg(self) -> Self {
                self.wrapping_neg()
            }
            #[inline(always)]
            fn wrapping_pow(self, exp: u32) -> Self {
                self.wrapping_pow(exp)
            }
            #[inline(always)]
            fn wrapping_rem(self, rhs: Self) -> Self {
                self.wrapping_rem(rhs)
            }
            #[inline(always)]
            fn wrapping_rem_euclid(self, rhs: Self) -> Self {
                self.wrapping_rem_euclid(rhs)
            }
            #[inline(always)]
            fn wrapping_shl(self, exp: u32) -> Self {
                self.wrapping_shl(exp)
            }
            #[inline(always)]
            fn wrapping_shr(self, exp: u32) -> Self {
                self.wrapping_shr(exp)
            }
            #[inline(always)]
            fn wrapping_sub(self, rhs: Self) -> Self {
                self.wrapping_sub(rhs)
            }
        }
    };
}

macro_rules! impl_unsigned_int {
    ($ty:ty, $sty:ty, $nzty:ty, $nzsty:ty) => {

        impl_number!($ty);
        impl_number!($sty);

        impl IsSigned for $ty {
            type Signed = False;
        }
        impl IsSigned for $sty {
            type Signed = True;
        }
        impl IsNonZero for $ty {
            type NonZero = False;
        }
        impl IsNonZero for $sty {
            type NonZero = False;
        }
        impl IsNonZero for $nzty {
            type NonZero = True;
        }
        impl IsNonZero for $nzsty {
            type NonZero = True;
        }
        impl IsInteger for $ty {
            type Integer = True;
        }
        impl IsFloat for $ty {
            type Float = False;
        }
        impl IsInteger for $sty {
            type Integer = True;
        }
        impl IsFloat for $sty {
            type Float = False;
        }
        impl IsInteger for $nzty {
            type Integer = True;
        }
        impl IsFloat for $nzty {
            type Float = False;
        }
        impl IsInteger for $nzsty {
            type Integer = True;
        }
        impl IsFloat for $nzsty {
            type Float = False;
        }

        impl UnsignedInt for $ty {
            type SignedInt = $sty;
            type NonZeroUnsignedInt = $nzty;


            #[inline(always)]
            fn to_signed(self) -> Self::SignedInt {self as Self::SignedInt}

            #[inline(always)]
            fn checked_next_power_of_two(self) -> Option<Self>{self.checked_next_power_of_two()}

            #[inline(always)]
            fn sign_extend(self, rhs: u32) -> Self {
                let shift_amount = Self::BITS as u32 - rhs;
                (((self << shift_amount) as Self::SignedInt) >> shift_amount) as Self
            }

            #[inline(always)]
            fn zero_extend(self, rhs: u32) -> Self {
                let shift_amount = Self::BITS as u32 - rhs;
                (self << shift_amount) >> shift_amount
            }

            #[inline(always)]
            fn overflow_sar(self, rhs: Self) -> Self {
                let shift_amount = core::cmp::min(rhs, Self::BITS as Self - 1);
                ((self as Self::SignedInt) >> shift_amount) as Self
            }

            #[inline(always)]
            fn ilog2(self) -> u32 {
                self.ilog2()
            }

            #[inline(always)]
            fn len(self) -> u32 {
                if self == 0 {
                    1
                } else {
                    self.ilog2() + 1
                }
            }

            #[inline(always)]
            fn ilog2_ceil(self) -> u32 {
                if self <= 2 {
                    self as u32
                } else {
                    (self - 1).ilog2() + 1
                }
            }

            #[inline(always)]
            fn checked_add_signed(self, rhs: Self::SignedInt) -> Option<Self>{self.checked_add_signed(rhs)}
            #[inline(always)]
            fn saturating_add_signed(self, rhs: Self::SignedInt) -> Self{self.saturating_add_signed(rhs)}
            #[inline(always)]
            fn wrapping_add_signed(self, rhs: Self::SignedInt) -> Self{self.wrapping_add_signed(rhs)}
            #[inline(always)]
            fn is_power_of_two(self) -> bool{self.is_power_of_two()}
            #[inline(always)]
            fn next_power_of_two(self) -> Self{self.next_power_of_two()}
        }

        impl SignedInt for $sty {
            type UnsignedInt = $ty;
            type NonZeroUnsignedInt = $nzsty;

            #[inline(always)]
            fn to_unsigned(self) -> Self::UnsignedInt {self as Self::UnsignedInt}

            #[inline(always)]
            fn abs(self) -> Self { self.abs()}
            #[inline(always)]
            fn signum(self) -> Self { self.signum()}
            #[inline(always)]
            fn checked_abs(self) -> Option<Self> { self.checked_abs()}
            #[inline(always)]
            fn checked_neg(self) -> Option<Self> { self.checked_neg()}
            #[inline(always)]
            fn checked_sub_unsigned(self, rhs: Self::UnsignedInt) -> Option<Self> { self.checked_sub_unsigned(rhs)}
            #[inline(always)]
            fn saturating_add_unsigned(self, rhs: Self::UnsignedInt) -> Self {self.saturating_add_unsigned(rhs)}
            #[inline(always)]
            fn saturating_sub_unsigned(self, rhs: Self::UnsignedInt) -> Self {self.saturating_sub_unsigned(rhs)}
            #[inline(always)]
            fn wrapping_add_unsigned(self, rhs: Self::UnsignedInt) -> Self {self.wrapping_add_unsigned(rhs)}
            #[inline(always)]
            fn wrapping_sub_unsigned(self, rhs: Self::UnsignedInt) -> Self {self.wrapping_sub_unsigned(rhs)}
        }

        impl crate::NonZero for $nzty {
            type BaseType = $ty;

            #[inline(always)]
            unsafe fn new_unchecked(n: Self::BaseType) -> Self {
                <$nzty>::new_unchecked(n)
            }

            #[inline(always)]
            fn new(n: Self::BaseType) -> Option<Self>{
                <$nzty>::new(n)
            }

            #[inline(always)]
            fn get(self) -> Self::BaseType{
                <$nzty>::get(self)
            }
        }


        impl crate::NonZero for $nzsty {
            type BaseType = $sty;

            #[inline(always)]
            unsafe fn new_unchecked(n: Self::BaseType) -> Self {
                <$nzsty>::new_unchecked(n)
            }

            #[inline(always)]
            fn new(n: Self::BaseType) -> Option<Self>{
                <$nzsty>::new(n)
            }

            #[inline(always)]
            fn get(self) -> Self::BaseType{
                <$nzsty>::get(self)
            }
        }
    };
}

// We implement separately IsAtomic for u128
// because this is done for the rest of the
// scalar types in impl_into_atomic!,
// and there is no AtomicU128 type.

impl IsAtomic for u128 {
    type Atomic = False;
}
impl IsAtomic for i128 {
    type Atomic = False;
}

impl_unsigned_int!(u8, i8, NonZeroU8, NonZeroI8);
impl_unsigned_int!(u16, i16, NonZeroU16, NonZeroI16);
impl_unsigned_int!(u32, i32, NonZeroU32, NonZeroI32);
impl_unsigned_int!(u64, i64, NonZeroU64, NonZeroI64);
impl_unsigned_int!(usize, isize, NonZeroUsize, NonZeroIsize);
impl_unsigned_int!(u128, i128, NonZeroU128, NonZeroI128);

impl_into_atomic!(u8, AtomicU8);
impl_into_atomic!(u16, AtomicU16);
impl_into_atomic!(u32, AtomicU32);
impl_into_atomic!(u64, AtomicU64);
impl_into_atomic!(usize, AtomicUsize);

impl_into_atomic!(i8, AtomicI8);
impl_into_atomic!(i16, AtomicI16);
impl_into_atomic!(i32, AtomicI32);
impl_into_atomic!(i64, AtomicI64);
impl_into_atomic!(isize, AtomicIsize);

impl_atomic_integer!(AtomicI8);
impl_atomic_integer!(AtomicI16);
impl_atomic_integer!(AtomicI32);
impl_atomic_integer!(AtomicI64);
impl_atomic_integer!(AtomicIsize);
impl_atomic_integer!(AtomicU8);
impl_atomic_integer!(AtomicU16);
impl_atomic_integer!(AtomicU32);
impl_atomic_integer!(AtomicU64);
impl_atomic_integer!(AtomicUsize);

impl_atomic_signed_int!(AtomicI8);
impl_atomic_signed_int!(AtomicI16);
impl_atomic_signed_int!(AtomicI32);
impl_atomic_signed_int!(AtomicI64);
impl_atomic_signed_int!(AtomicIsize);
impl_atomic_unsigned_int!(AtomicU8);
impl_atomic_unsigned_int!(AtomicU16);
impl_atomic_unsigned_int!(AtomicU32);
impl_atomic_unsigned_int!(AtomicU64);
impl_atomic_unsigned_int!(AtomicUsize);

impl IsAtomic for bool {
    type Atomic = False;
}
impl IsAtomic for AtomicBool {
    type Atomic = True;
}
impl IsSigned for bool {
    type Signed = False;
}
impl IsSigned for AtomicBool {
    type Signed = False;
}
impl IsNonZero for bool {
    type NonZero = False;
}
impl IsNonZero for AtomicBool {
    type NonZero = False;
}
impl IsInteger for bool {
    type Integer = False;
}
impl IsInteger for AtomicBool {
    type Integer = False;
}
impl IsFloat for bool {
    type Float = False;
}
impl IsFloat for AtomicBool {
    type Float = False;
}

impl IntoAtomic for bool {
    type AtomicType = AtomicBool;

    #[inline(always)]
    fn to_atomic(self) -> Self::AtomicType {
        Self::AtomicType::new(self)
    }

    #[inline(always)]
    fn into_atomic_array<const N: usize>(data: [Self; N]) -> [Self::AtomicType; N] {
        #[allow(clippy::uninit_assumed_init)]
        let mut res: [Self::AtomicType; N] =
            unsafe { core::mem::MaybeUninit::uninit().assume_init() };
        for i in 0..N {
            res[i] = Self::AtomicType::new(data[i]);
        }
        res
    }

    #[inline(always)]
    fn from_atomic_array<const N: usize>(data: [Self::AtomicType; N]) -> [Self; N] {
        unsafe { *(data.as_ptr() as *const [Self; N]) }
    }

    #[inline(always)]
    fn get_mut_slice(this: &mut [Self::AtomicType]) -> &mut [Self] {
        unsafe { core::mem::transmute(this) }
    }

    #[inline(always)]
    fn from_mut_slice(this: &mut [Self]) -> &mut [Self::AtomicType] {
        unsafe { core::mem::transmute(this) }
    }

    #[inline(always)]
    fn get_mut_array<const N: usize>(this: &mut [Self::AtomicType; N]) -> &mut [Self; N] {
        unsafe { core::mem::transmute(this) }
    }

    #[inline(always)]
    fn from_mut_array<const N: usize>(this: &mut [Self; N]) -> &mut [Self::AtomicType; N] {
        unsafe { core::mem::transmute(this) }
    }
}

impl Atomic for AtomicBool {
    type NonAtomicType = bool;

    #[inline(always)]
    fn new(value: Self::NonAtomicType) -> Self {
        <Self>::new(value)
    }

    #[inline(always)]
    fn load(&self, order: Ordering) -> Self::NonAtomicType {
        <Self>::load(self, order)
    }

    #[inline(always)]
    fn store(&self, value: Self::NonAtomicType, order: Ordering) {
        <Self>::store(self, value, order)
    }

    #[inline(always)]
    fn get_mut(&mut self) -> &mut Self::NonAtomicType {
        <Self>::get_mut(self)
    }

    #[inline(always)]
    fn into_inner(self) -> Self::NonAtomicType {
        <Self>::into_inner(self)
    }

    #[inline(always)]
    fn into_non_atomic_array<const N: usize>(data: [Self; N]) -> [Self::NonAtomicType; N] {
        unsafe { *(data.as_ptr() as *const [Self::NonAtomicType; N]) }
    }

    #[inline(always)]
    fn from_non_atomic_array<const N: usize>(data: [Self::NonAtomicType; N]) -> [Self; N] {
        #[allow(clippy::uninit_assumed_init)]
        let mut res: [Self; N] = unsafe { core::mem::MaybeUninit::uninit().assume_init() };
        for i in 0..N {
            res[i] = Self::new(data[i]);
        }
        res
    }

    #[inline(always)]
    fn get_mut_slice(this: &mut [Self]) -> &mut [Self::NonAtomicType] {
        unsafe { core::mem::transmute::<&mut [Self], &mut [Self::NonAtomicType]>(this) }
    }

    #[inline(always)]
    fn from_mut_slice(this: &mut [Self::NonAtomicType]) -> &mut [Self] {
        unsafe { core::mem::transmute::<&mut [Self::NonAtomicType], &mut [Self]>(this) }
    }

    #[inline(always)]
    fn get_mut_array<const N: usize>(this: &mut [Self; N]) -> &mut [Self::NonAtomicType; N] {
        unsafe { core::mem::transmute::<&mut [Self; N], &mut [Self::NonAtomicType; N]>(this) }
    }
    #[inline(always)]
    fn from_mut_array<const N: usize>(this: &mut [Self::NonAtomicType; N]) -> &mut [Self; N] {
        unsafe { core::mem::transmute::<&mut [Self::NonAtomicType; N], &mut [Self; N]>(this) }
    }

    #[inline(always)]
    fn compare_exchange(
        &self,
        current: Self::NonAtomicType,
        new: Self::NonAtomicType,
        success: Ordering,
        failure: Ordering,
    ) -> Result<Self::NonAtomicType, Self::NonAtomicType> {
        <Self>::compare_exchange(self, current, new, success, failure)
    }

    #[inline(always)]
    fn compare_exchange_weak(
        &self,
        current: Self::NonAtomicType,
        new: Self::NonAtomicType,
        success: Ordering,
        failure: Ordering,
    ) -> Result<Self::NonAtomicType, Self::NonAtomicType> {
        <Self>::compare_exchange_weak(self, current, new, success, failure)
    }

    #[inline(always)]
    fn swap(&self, new: Self::NonAtomicType, order: Ordering) -> Self::NonAtomicType {
        <Self>::swap(self, new, order)
    }

    #[inline(always)]
    fn fetch_update<F>(
        &self,
        set_order: Ordering,
        fetch_order: Ordering,
        f: F,
    ) -> Result<Self::NonAtomicType, Self::NonAtomicType>
    where
        F: FnMut(Self::NonAtomicType) -> Option<Self::NonAtomicType>,
    {
        <Self>::fetch_update(self, set_order, fetch_order, f)
    }
}

macro_rules! impl_float {
    ($($ty:ty, $aty:ty, $zero:expr, $one:expr,)*) => {$(

impl AsBytes for $aty {
    const BITS: usize = <$ty>::BITS as usize;
    const BYTES: usize = <$ty>::BYTES;
    type Bytes = [u8;  <$ty>::BYTES];
}

impl AsBytes for $ty {
    const BITS: usize = Self::BYTES * 8;
    const BYTES: usize = core::mem::size_of::<$ty>();
    type Bytes = [u8; Self::BYTES];
}

impl IsAtomic for $ty {
    type Atomic = False;
}
impl IsAtomic for $aty {
    type Atomic = True;
}

impl IsSigned for $ty {
    type Signed = True;
}
impl IsSigned for $aty {
    type Signed = True;
}
impl IsNonZero for $ty {
    type NonZero = False;
}
impl IsNonZero for $aty {
    type NonZero = False;
}
impl IsFloat for $ty {
    type Float = True;
}
impl IsFloat for $aty {
    type Float = True;
}
impl IsInteger for $ty {
    type Integer = False;
}
impl IsInteger for $aty {
    type Integer = False;
}

impl IntoAtomic for $ty {
    type AtomicType = $aty;

    #[inline(always)]
    fn to_atomic(self) -> Self::AtomicType {
        Self::AtomicType::new(self)
    }

    #[inline(always)]
    fn into_atomic_array<const N: usize>(data: [Self; N]) -> [Self::AtomicType; N] {
        #[allow(clippy::uninit_assumed_init)]
        let mut res: [Self::AtomicType; N] =
            unsafe { core::mem::MaybeUninit::uninit().assume_init() };
        for i in 0..N {
            res[i] = Self::AtomicType::new(data[i]);
        }
        res
    }

    #[inline(always)]
    fn from_atomic_array<const N: usize>(data: [Self::AtomicType; N]) -> [Self; N] {
        unsafe { *(data.as_ptr() as *const [Self; N]) }
    }

    #[inline(always)]
    fn get_mut_slice(this: &mut [Self::AtomicType]) -> &mut [Self] {
        unsafe { core::mem::transmute(this) }
    }

    #[inline(always)]
    fn from_mut_slice(this: &mut [Self]) -> &mut [Self::AtomicType] {
        unsafe { core::mem::transmute(this) }
    }

    #[inline(always)]
    fn get_mut_array<const N: usize>(this: &mut [Self::AtomicType; N]) -> &mut [Self; N] {
        unsafe { core::mem::transmute(this) }
    }

    #[inline(always)]
    fn from_mut_array<const N: usize>(this: &mut [Self; N]) -> &mut [Self::AtomicType; N] {
        unsafe { core::mem::transmute(this) }
    }

}

impl FromBytes for $ty {
#[inline(always)]
    fn from_be_bytes(bytes: Self::Bytes) -> Self {<$ty>::from_be_bytes(bytes)}
    #[inline(always)]
    fn from_le_bytes(bytes: Self::Bytes) -> Self {<$ty>::from_le_bytes(bytes)}
    #[inline(always)]
    fn from_ne_bytes(bytes: Self::Bytes) -> Self {<$ty>::from_ne_bytes(bytes)}
}

impl ToBytes for $ty {
    #[inline(always)]
    fn to_be_bytes(self) -> Self::Bytes{self.to_be_bytes()}
    #[inline(always)]
    fn to_le_bytes(self) -> Self::Bytes{self.to_le_bytes()}
    #[inline(always)]
    fn to_ne_bytes(self) -> Self::Bytes{self.to_ne_bytes()}
}

impl Number for $ty {
    const ZERO: Self = 0.0;
    const ONE: Self = 1.0;

    #[inline(always)]
    fn mul_add(self, a: Self, b: Self) -> Self {
        #[cfg(feature="std")]
        {
            <$ty>::mul_add(self, a, b)
        }
        #[cfg(not(feature="std"))]
        {
            (self * a) + b
        }
    }
    #[inline(always)]
    fn max(self, other: Self) -> Self {<$ty>::max(self, other)}
    #[inline(always)]
    fn min(self, other: Self) -> Self {<$ty>::min(self, other)}
    #[inline(always)]
    fn clamp(self, min: Self, max: Self) -> Self {<$ty>::clamp(self, min, max)}

    #[cfg(feature="std")]
    #[inline(always)]
    fn pow(self, exp: Self) -> Self {
        self.powf(exp)
    }
}

impl FiniteRangeNumber for $ty {
    const MIN: Self = <Self>::MIN as _;
    const MAX: Self = <Self>::MAX as _;

    #[inline(always)]
    fn saturating_add(self, rhs: Self) -> Self {
        let res = self + rhs;
        if res.is_nan() {
            return <$ty>::NAN;
        }
        if !res.is_finite() {
            if res.is_sign_positive() {
                Self::MAX
            } else {
                Self::MIN
            }
        } else {
            res
        }
    }
    #[inline(always)]
    fn saturating_div(self, rhs: Self) -> Self {
        let res = self / rhs;
        if res.is_nan() {
            return <$ty>::NAN;
        }
        if !res.is_finite() {
            if res.is_sign_positive() {
                Self::MAX
            } else {
                Self::MIN
            }
        } else {
            res
        }
    }
    #[inline(always)]
    fn saturating_mul(self, rhs: Self) -> Self {
        let res = self * rhs;
        if res.is_nan() {
            return <$ty>::NAN;
        }
        if !res.is_finite() {
            if res.is_sign_positive() {
                Self::MAX
            } else {
                Self::MIN
            }
        } else {
            res
        }
    }
    #[cfg(feature="std")]
    #[inline(always)]
    fn saturating_pow(self, rhs: Self) -> Self {
        let res = self.pow(rhs);
        if res.is_nan() {
            return <$ty>::NAN;
        }
        if !res.is_finite() {
            if res.is_sign_positive() {
                Self::MAX
            } else {
                Self::MIN
            }
        } else {
            res
        }
    }
    #[inline(always)]
    fn saturating_sub(self, rhs: Self) -> Self {
        let res = self - rhs;
        if res.is_nan() {
            return <$ty>::NAN;
        }
        if !res.is_finite() {
            if res.is_sign_positive() {
                Self::MAX
            } else {
                Self::MIN
            }
        } else {
            res
        }
    }
}

impl Float for $ty {
    const RADIX: usize = <$ty>::RADIX as _;
    const DIGITS: usize = <$ty>::DIGITS as _;

    const EPSILON: Self = <$ty>::EPSILON;
    const INFINITY: Self = <$ty>::INFINITY;
    const NEG_INFINITY: Self = <$ty>::NEG_INFINITY;
    const NAN: Self = <$ty>::NAN;
    const MIN_POSITIVE: Self = <$ty>::MIN_POSITIVE;

    const MANTISSA_DIGITS: usize = <$ty>::MANTISSA_DIGITS as _;
    const MAX_10_EXP: usize = <$ty>::MAX_10_EXP as _;
    const MAX_EXP: usize = <$ty>::MAX_EXP as _;
    const MIN_10_EXP: usize = <$ty>::MIN_10_EXP as _;
    const MIN_EXP: usize = <$ty>::MIN_EXP as _;

    #[inline(always)]
    fn is_nan(self) -> bool {<$ty>::is_nan(self)}
    #[inline(always)]
    fn is_infinite(self) -> bool {<$ty>::is_infinite(self)}
    #[inline(always)]
    fn is_finite(self) -> bool {<$ty>::is_finite(self)}
    #[inline(always)]
    fn is_subnormal(self) -> bool {<$ty>::is_subnormal(self)}
    #[inline(always)]
    fn is_normal(self) -> bool {<$ty>::is_normal(self)}
    #[inline(always)]
    fn classify(self) -> FpCategory {<$ty>::classify(self)}
    #[inline(always)]
    fn is_sign_positive(self) -> bool {<$ty>::is_sign_positive(self)}
    #[inline(always)]
    fn is_sign_negative(self) -> bool {<$ty>::is_sign_negative(self)}
    #[inline(always)]
    fn recip(self) -> Self {<$ty>::recip(self)}
    #[inline(always)]
    fn to_degrees(self) -> Self {<$ty>::to_degrees(self)}
    #[inline(always)]
    fn to_radians(self) -> Self {<$ty>::to_radians(self)}
    #[inline(always)]
    fn total_cmp(&self, other: &Self) -> core::cmp::Ordering {<$ty>::total_cmp(self, other)}

    #[cfg(feature="std")]
    #[inline(always)]
    fn rem_euclid(self, rhs: Self) -> Self { <$ty>::rem_euclid(self, rhs)}
    #[cfg(feature="std")]
    #[inline(always)]
    fn div_euclid(self, rhs: Self) -> Self { <$ty>::div_euclid(self, rhs)}
    #[cfg(feature="std")]
    #[inline(always)]
    fn floor(self) -> Self {<$ty>::floor(self)}
    #[cfg(feature="std")]
    #[inline(always)]
    fn ceil(self) -> Self {<$ty>::ceil(self)}
    #[cfg(feature="std")]
    #[inline(always)]
    fn round(self) -> Self {<$ty>::round(self)}
    #[cfg(feature="std")]
    #[inline(always)]
    fn trunc(self) -> Self {<$ty>::trunc(self)}
    #[cfg(feature="std")]
    #[inline(always)]
    fn fract(self) -> Self {<$ty>::fract(self)}
    #[cfg(feature="std")]
    #[inline(always)]
    fn abs(self) -> Self {<$ty>::abs(self)}
    #[cfg(feature="std")]
    #[inline(always)]
    fn signum(self) -> Self {<$ty>::signum(self)}
    #[cfg(feature="std")]
    #[inline(always)]
    fn copysign(self, sign: Self) -> Self {<$ty>::copysign(self, sign)}
    #[cfg(feature="std")]
    fn powi(self, n: isize) -> Self {<$ty>::powi(self, n as _)}
    #[cfg(feature="std")]
    #[inline(always)]
    fn powf(self, n: Self) -> Self {<$ty>::powf(self, n)}
    #[cfg(feature="std")]
    #[inline(always)]
    fn sqrt(self) -> Self {<$ty>::sqrt(self)}
    #[cfg(feature="std")]
    #[inline(always)]
    fn exp(self) -> Self {<$ty>::exp(self)}
    #[cfg(feature="std")]
    #[inline(always)]
    fn exp2(self) -> Self {<$ty>::exp2(self)}
    #[cfg(feature="std")]
    #[inline(always)]
    fn ln(self) -> Self {<$ty>::ln(self)}
    #[cfg(feature="std")]
    #[inline(always)]
    fn log(self, base: Self) -> Self {<$ty>::log(self, base)}
    #[cfg(feature="std")]
    #[inline(always)]
    fn log2(self) -> Self {<$ty>::log2(self)}
    #[cfg(feature="std")]
    #[inline(always)]
    fn log10(self) -> Self {<$ty>::log10(self)}
    #[cfg(feature="std")]
    #[inline(always)]
    fn cbrt(self) -> Self {<$ty>::cbrt(self)}
    #[cfg(feature="std")]
    #[inline(always)]
    fn hypot(self, other: Self) -> Self {<$ty>::hypot(self, other)}
    #[cfg(feature="std")]
    #[inline(always)]
    fn sin(self) -> Self {<$ty>::sin(self)}
    #[cfg(feature="std")]
    #[inline(always)]
    fn cos(self) -> Self {<$ty>::cos(self)}
    #[cfg(feature="std")]
    #[inline(always)]
    fn tan(self) -> Self {<$ty>::tan(self)}
    #[cfg(feature="std")]
    #[inline(always)]
    fn asin(self) -> Self {<$ty>::asin(self)}
    #[cfg(feature="std")]
    #[inline(always)]
    fn acos(self) -> Self {<$ty>::acos(self)}
    #[cfg(feature="std")]
    #[inline(always)]
    fn atan(self) -> Self {<$ty>::atan(self)}
    #[cfg(feature="std")]
    #[inline(always)]
    fn atan2(self, other: Self) -> Self {<$ty>::atan2(self, other)}
    #[cfg(feature="std")]
    #[inline(always)]
    fn sin_cos(self) -> (Self, Self) {<$ty>::sin_cos(self)}
    #[cfg(feature="std")]
    #[inline(always)]
    fn exp_m1(self) -> Self {<$ty>::exp_m1(self)}
    #[cfg(feature="std")]
    #[inline(always)]
    fn ln_1p(self) -> Self {<$ty>::ln_1p(self)}
    #[cfg(feature="std")]
    #[inline(always)]
    fn sinh(self) -> Self {<$ty>::sinh(self)}
    #[cfg(feature="std")]
    #[inline(always)]
    fn cosh(self) -> Self {<$ty>::cosh(self)}
    #[cfg(feature="std")]
    #[inline(always)]
    fn tanh(self) -> Self {<$ty>::tanh(self)}
    #[cfg(feature="std")]
    #[inline(always)]
    fn asinh(self) -> Self {<$ty>::asinh(self)}
    #[cfg(feature="std")]
    #[inline(always)]
    fn acosh(self) -> Self {<$ty>::acosh(self)}
    #[cfg(feature="std")]
    #[inline(always)]
    fn atanh(self) -> Self {<$ty>::atanh(self)}
}

    )*};
}

#[cfg(feature = "half")]
macro_rules! impl_f16 {
    ($ty:ty, $aty:ty) => {
        impl IsAtomic for $ty {
            type Atomic = False;
        }
        impl IsAtomic for $aty {
            type Atomic = True;
        }

        impl IsSigned for $ty {
            type Signed = True;
        }
        impl IsSigned for $aty {
            type Signed = True;
        }
        impl IsNonZero for $ty {
            type NonZero = False;
        }
        impl IsNonZero for $aty {
            type NonZero = False;
        }
        impl IsFloat for $ty {
            type Float = True;
        }
        impl IsFloat for $aty {
            type Float = True;
        }
        impl IsInteger for $ty {
            type Integer = False;
        }
        impl IsInteger for $aty {
            type Integer = False;
        }

        impl AsBytes for $aty {
            const BITS: usize = 16;
            const BYTES: usize = 2;
            type Bytes = [u8; 2];
        }

        impl AsBytes for $ty {
            const BITS: usize = 16;
            const BYTES: usize = 2;
            type Bytes = [u8; 2];
        }

        impl core::default::Default for $aty {
            #[inline(always)]
            fn default() -> Self {
                Self::new(<Self as Atomic>::NonAtomicType::ZERO)
            }
        }

        impl FromBytes for $ty {
            #[inline(always)]
            fn from_be_bytes(bytes: Self::Bytes) -> Self {
                <Self>::from_be_bytes(bytes)
            }
            #[inline(always)]
            fn from_le_bytes(bytes: Self::Bytes) -> Self {
                <Self>::from_le_bytes(bytes)
            }
            #[inline(always)]
            fn from_ne_bytes(bytes: Self::Bytes) -> Self {
                <Self>::from_ne_bytes(bytes)
            }
        }

        impl ToBytes for $ty {
            #[inline(always)]
            fn to_be_bytes(self) -> Self::Bytes {
                self.to_be_bytes()
            }
            #[inline(always)]
            fn to_le_bytes(self) -> Self::Bytes {
                self.to_le_bytes()
            }
            #[inline(always)]
            fn to_ne_bytes(self) -> Self::Bytes {
                self.to_ne_bytes()
            }
        }

        impl IntoAtomic for $ty {
            type AtomicType = $aty;

            #[inline(always)]
            fn to_atomic(self) -> Self::AtomicType {
                Self::AtomicType::new(self)
            }

            #[inline(always)]
            fn into_atomic_array<const N: usize>(data: [Self; N]) -> [Self::AtomicType; N] {
                #[allow(clippy::uninit_assumed_init)]
                let mut res: [Self::AtomicType; N] =
                    unsafe { core::mem::MaybeUninit::uninit().assume_init() };
                for i in 0..N {
                    res[i] = Self::AtomicType::new(data[i]);
                }
                res
            }

            #[inline(always)]
            fn from_atomic_array<const N: usize>(data: [Self::AtomicType; N]) -> [Self; N] {
                unsafe { *(data.as_ptr() as *const [Self; N]) }
            }

            #[inline(always)]
            fn get_mut_slice(this: &mut [Self::AtomicType]) -> &mut [Self] {
                unsafe { core::mem::transmute(this) }
            }

            #[inline(always)]
            fn from_mut_slice(this: &mut [Self]) -> &mut [Self::AtomicType] {
                unsafe { core::mem::transmute(this) }
            }

            #[inline(always)]
            fn get_mut_array<const N: usize>(this: &mut [Self::AtomicType; N]) -> &mut [Self; N] {
                unsafe { core::mem::transmute(this) }
            }

            #[inline(always)]
            fn from_mut_array<const N: usize>(this: &mut [Self; N]) -> &mut [Self::AtomicType; N] {
                unsafe { core::mem::transmute(this) }
            }
        }

        impl Atomic for $aty {
            type NonAtomicType = $ty;

            #[inline(always)]
            fn new(value: Self::NonAtomicType) -> Self {
                Self(<AtomicU16>::new(value.to_bits()))
            }

            #[inline(always)]
            fn load(&self, order: Ordering) -> Self::NonAtomicType {
                Self::NonAtomicType::from_bits(self.0.load(order))
            }

            #[inline(always)]
            fn store(&self, value: Self::NonAtomicType, order: Ordering) {
                self.0.store(value.to_bits(), order)
            }

            #[inline(always)]
            fn get_mut(&mut self) -> &mut Self::NonAtomicType {
                unsafe { &mut *(self as *mut Self as *mut Self::NonAtomicType) }
            }

            #[inline(always)]
            fn into_inner(self) -> Self::NonAtomicType {
                Self::NonAtomicType::from_bits(self.0.into_inner())
            }

            #[inline(always)]
            fn into_non_atomic_array<const N: usize>(data: [Self; N]) -> [Self::NonAtomicType; N] {
                unsafe { *(data.as_ptr() as *const [Self::NonAtomicType; N]) }
            }

            #[inline(always)]
            fn from_non_atomic_array<const N: usize>(data: [Self::NonAtomicType; N]) -> [Self; N] {
                #[allow(clippy::uninit_assumed_init)]
                let mut res: [Self; N] = unsafe { core::mem::MaybeUninit::uninit().assume_init() };
                for i in 0..N {
                    res[i] = Self::new(data[i]);
                }
                res
            }

            #[inline(always)]
            fn get_mut_slice(this: &mut [Self]) -> &mut [Self::NonAtomicType] {
                unsafe { core::mem::transmute::<&mut [Self], &mut [Self::NonAtomicType]>(this) }
            }

            #[inline(always)]
            fn from_mut_slice(this: &mut [Self::NonAtomicType]) -> &mut [Self] {
                unsafe { core::mem::transmute::<&mut [Self::NonAtomicType], &mut [Self]>(this) }
            }

            #[inline(always)]
            fn get_mut_array<const N: usize>(
                this: &mut [Self; N],
            ) -> &mut [Self::NonAtomicType; N] {
                unsafe {
                    core::mem::transmute::<&mut [Self; N], &mut [Self::NonAtomicType; N]>(this)
                }
            }
            #[inline(always)]
            fn from_mut_array<const N: usize>(
                this: &mut [Self::NonAtomicType; N],
            ) -> &mut [Self; N] {
                unsafe {
                    core::mem::transmute::<&mut [Self::NonAtomicType; N], &mut [Self; N]>(this)
                }
            }

            #[inline(always)]
            fn compare_exchange(
                &self,
                current: Self::NonAtomicType,
                new: Self::NonAtomicType,
                success: Ordering,
                failure: Ordering,
            ) -> Result<Self::NonAtomicType, Self::NonAtomicType> {
                self.0
                    .compare_exchange(current.to_bits(), new.to_bits(), success, failure)
                    .map(Self::NonAtomicType::from_bits)
                    .map_err(Self::NonAtomicType::from_bits)
            }

            #[inline(always)]
            fn compare_exchange_weak(
                &self,
                current: Self::NonAtomicType,
                new: Self::NonAtomicType,
                success: Ordering,
                failure: Ordering,
            ) -> Result<Self::NonAtomicType, Self::NonAtomicType> {
                self.0
                    .compare_exchange_weak(current.to_bits(), new.to_bits(), success, failure)
                    .map(Self::NonAtomicType::from_bits)
                    .map_err(Self::NonAtomicType::from_bits)
            }

            #[inline(always)]
            fn swap(&self, value: Self::NonAtomicType, order: Ordering) -> Self::NonAtomicType {
                Self::NonAtomicType::from_bits(self.0.swap(value.to_bits(), order))
            }

            #[inline(always)]
            fn fetch_update<F>(
                &self,
                set_order: Ordering,
                fetch_order: Ordering,
                mut f: F,
            ) -> Result<Self::NonAtomicType, Self::NonAtomicType>
            where
                F: FnMut(Self::NonAtomicType) -> Option<Self::NonAtomicType>,
            {
                self.0
                    .fetch_update(set_order, fetch_order, |x| {
                        f(Self::NonAtomicType::from_bits(x)).map(Self::NonAtomicType::to_bits)
                    })
                    .map(Self::NonAtomicType::from_bits)
                    .map_err(Self::NonAtomicType::from_bits)
            }
        }

        impl Number for $ty {
            const ZERO: Self = Self::from_f32_const(0.0);
            const ONE: Self = Self::from_f32_const(1.0);

            #[inline(always)]
            fn mul_add(self, a: Self, b: Self) -> Self {
                (self * a) + b
            }
            #[inline(always)]
            fn max(self, other: Self) -> Self {
                <Self>::max(self, other)
            }
            #[inline(always)]
            fn min(self, other: Self) -> Self {
                <Self>::min(self, other)
            }
            #[inline(always)]
            fn clamp(self, min: Self, max: Self) -> Self {
                <Self>::clamp(self, min, max)
            }

            #[inline(always)]
            #[cfg(feature = "std")]
            fn pow(self, exp: Self) -> Self {
                self.powf(exp)
            }
        }

        impl AtomicNumber for $aty {
            #[inline(always)]
            fn fetch_add(
                &self,
                value: Self::NonAtomicType,
                order: Ordering,
            ) -> Self::NonAtomicType {
                self.fetch_update(Ordering::Relaxed, order, |x| Some(x + value))
                    .unwrap()
            }

            #[inline(always)]
            fn fetch_sub(
                &self,
                value: Self::NonAtomicType,
                order: Ordering,
            ) -> Self::NonAtomicType {
                self.fetch_update(Ordering::Relaxed, order, |x| Some(x - value))
                    .unwrap()
            }

            #[inline(always)]
            fn fetch_min(
                &self,
                value: Self::NonAtomicType,
                order: Ordering,
            ) -> Self::NonAtomicType {
                self.fetch_update(Ordering::Relaxed, order, |x| {
                    Some(Self::NonAtomicType::min(x, value))
                })
                .unwrap()
            }

            #[inline(always)]
            fn fetch_max(
                &self,
                value: Self::NonAtomicType,
                order: Ordering,
            ) -> Self::NonAtomicType {
                self.fetch_update(Ordering::Relaxed, order, |x| {
                    Some(Self::NonAtomicType::max(x, value))
                })
                .unwrap()
            }
        }

        impl FiniteRangeNumber for $ty {
            const MIN: Self = <Self>::MIN as _;
            const MAX: Self = <Self>::MAX as _;

            #[inline(always)]
            fn saturating_add(self, rhs: Self) -> Self {
                let res = self + rhs;
                if res.is_nan() {
                    return <Self>::NAN;
                }
                if !res.is_finite() {
                    if res.is_sign_positive() {
                        Self::MAX
                    } else {
                        Self::MIN
                    }
                } else {
                    res
                }
            }
            #[inline(always)]
            fn saturating_div(self, rhs: Self) -> Self {
                let res = self / rhs;
                if res.is_nan() {
                    return <Self>::NAN;
                }
                if !res.is_finite() {
                    if res.is_sign_positive() {
                        Self::MAX
                    } else {
                        Self::MIN
                    }
                } else {
                    res
                }
            }
            #[inline(always)]
            fn saturating_mul(self, rhs: Self) -> Self {
                let res = self * rhs;
                if res.is_nan() {
                    return <Self>::NAN;
                }
                if !res.is_finite() {
                    if res.is_sign_positive() {
                        Self::MAX
                    } else {
                        Self::MIN
                    }
                } else {
                    res
                }
            }
            #[cfg(feature = "std")]
            #[inline(always)]
            fn saturating_pow(self, rhs: Self) -> Self {
                let res = self.pow(rhs);
                if res.is_nan() {
                    return <Self>::NAN;
                }
                if !res.is_finite() {
                    if res.is_sign_positive() {
                        Self::MAX
                    } else {
                        Self::MIN
                    }
                } else {
                    res
                }
            }
            #[inline(always)]
            fn saturating_sub(self, rhs: Self) -> Self {
                let res = self - rhs;
                if res.is_nan() {
                    return <Self>::NAN;
                }
                if !res.is_finite() {
                    if res.is_sign_positive() {
                        Self::MAX
                    } else {
                        Self::MIN
                    }
                } else {
                    res
                }
            }
        }

        impl AtomicFiniteRangeNumber for $aty {
            #[inline(always)]
            fn fetch_saturating_add(
                &self,
                value: Self::NonAtomicType,
                set_order: Ordering,
                fetch_order: Ordering,
            ) -> Self::NonAtomicType {
                self.fetch_update(set_order, fetch_order, |x| Some(x.saturating_add(value)))
                    .unwrap()
            }
            #[inline(always)]
            fn fetch_saturating_sub(
                &self,
                value: Self::NonAtomicType,
                set_order: Ordering,
                fetch_order: Ordering,
            ) -> Self::NonAtomicType {
                self.fetch_update(set_order, fetch_order, |x| Some(x.saturating_sub(value)))
                    .unwrap()
            }
            #[inline(always)]
            fn fetch_saturating_mul(
                &self,
                value: Self::NonAtomicType,
                set_order: Ordering,
                fetch_order: Ordering,
            ) -> Self::NonAtomicType {
                self.fetch_update(set_order, fetch_order, |x| Some(x.saturating_mul(value)))
                    .unwrap()
            }
            #[inline(always)]
            fn fetch_saturating_div(
                &self,
                value: Self::NonAtomicType,
                set_order: Ordering,
                fetch_order: Ordering,
            ) -> Self::NonAtomicType {
                self.fetch_update(set_order, fetch_order, |x| Some(x.saturating_div(value)))
                    .unwrap()
            }
            #[cfg(feature = "std")]
            #[inline(always)]
            fn fetch_saturating_pow(
                &self,
                value: Self::NonAtomicType,
                set_order: Ordering,
                fetch_order: Ordering,
            ) -> Self::NonAtomicType {
                self.fetch_update(set_order, fetch_order, |x| Some(x.saturating_pow(value)))
                    .unwrap()
            }
        }

        impl Float for $ty {
            const RADIX: usize = <Self>::RADIX as _;
            const DIGITS: usize = <Self>::DIGITS as _;

            const EPSILON: Self = <Self>::EPSILON;
            const INFINITY: Self = <Self>::INFINITY;
            const NEG_INFINITY: Self = <Self>::NEG_INFINITY;
            const NAN: Self = <Self>::NAN;
            const MIN_POSITIVE: Self = <Self>::MIN_POSITIVE;

            const MANTISSA_DIGITS: usize = <Self>::MANTISSA_DIGITS as _;
            const MAX_10_EXP: usize = <Self>::MAX_10_EXP as _;
            const MAX_EXP: usize = <Self>::MAX_EXP as _;
            const MIN_10_EXP: usize = <Self>::MIN_10_EXP as _;
            const MIN_EXP: usize = <Self>::MIN_EXP as _;

            #[inline(always)]
            fn is_nan(self) -> bool {
                <Self>::is_nan(self)
            }
            #[inline(always)]
            fn is_infinite(self) -> bool {
                <Self>::is_infinite(self)
            }
            #[inline(always)]
            fn is_finite(self) -> bool {
                <Self>::is_finite(self)
            }
            #[inline(always)]
            fn is_subnormal(self) -> bool {
                !self.is_normal()
            }
            #[inline(always)]
            fn is_normal(self) -> bool {
                <Self>::is_normal(self)
            }
            #[inline(always)]
            fn classify(self) -> FpCategory {
                <Self>::classify(self)
            }
            #[inline(always)]
            fn is_sign_positive(self) -> bool {
                <Self>::is_sign_positive(self)
            }
            #[inline(always)]
            fn is_sign_negative(self) -> bool {
                <Self>::is_sign_negative(self)
            }
            #[inline(always)]
            fn recip(self) -> Self {
                Self::ONE / self
            }
            #[inline(always)]
            fn total_cmp(&self, other: &Self) -> core::cmp::Ordering {
                <Self>::total_cmp(self, other)
            }
            #[cfg(feature = "std")]
            #[inline(always)]
            fn signum(self) -> Self {
                <Self>::signum(self)
            }
            #[cfg(feature = "std")]
            #[inline(always)]
            fn copysign(self, sign: Self) -> Self {
                <Self>::copysign(self, sign)
            }

            #[inline(always)]
            fn to_degrees(self) -> Self {
                <Self>::from_f32(self.to_f32().to_degrees())
            }
            #[inline(always)]
            fn to_radians(self) -> Self {
                <Self>::from_f32(self.to_f32().to_radians())
            }
            #[cfg(feature = "std")]
            #[inline(always)]
            fn rem_euclid(self, rhs: Self) -> Self {
                <Self>::from_f32(self.to_f32().rem_euclid(rhs.to_f32()))
            }
            #[cfg(feature = "std")]
            #[inline(always)]
            fn div_euclid(self, rhs: Self) -> Self {
                <Self>::from_f32(self.to_f32().div_euclid(rhs.to_f32()))
            }
            #[cfg(feature = "std")]
            #[inline(always)]
            fn floor(self) -> Self {
                <Self>::from_f32(self.to_f32().floor())
            }
            #[cfg(feature = "std")]
            #[inline(always)]
            fn ceil(self) -> Self {
                <Self>::from_f32(self.to_f32().ceil())
            }
            #[cfg(feature = "std")]
            #[inline(always)]
            fn round(self) -> Self {
                <Self>::from_f32(self.to_f32().round())
            }
            #[cfg(feature = "std")]
            #[inline(always)]
            fn trunc(self) -> Self {
                <Self>::from_f32(self.to_f32().trunc())
            }
            #[cfg(feature = "std")]
            #[inline(always)]
            fn fract(self) -> Self {
                <Self>::from_f32(self.to_f32().fract())
            }
            #[cfg(feature = "std")]
            #[inline(always)]
            fn abs(self) -> Self {
                <Self>::from_f32(self.to_f32().abs())
            }
            #[cfg(feature = "std")]
            fn powi(self, n: isize) -> Self {
                <Self>::from_f32(self.to_f32().powi(n as _))
            }
            #[cfg(feature = "std")]
            #[inline(always)]
            fn powf(self, n: Self) -> Self {
                <Self>::from_f32(self.to_f32().powf(n.to_f32()))
            }
            #[cfg(feature = "std")]
            #[inline(always)]
            fn sqrt(self) -> Self {
                <Self>::from_f32(self.to_f32().sqrt())
            }
            #[cfg(feature = "std")]
            #[inline(always)]
            fn exp(self) -> Self {
                <Self>::from_f32(self.to_f32().exp())
            }
            #[cfg(feature = "std")]
            #[inline(always)]
            fn exp2(self) -> Self {
                <Self>::from_f32(self.to_f32().exp2())
            }
            #[cfg(feature = "std")]
            #[inline(always)]
            fn ln(self) -> Self {
                <Self>::from_f32(self.to_f32().ln())
            }
            #[cfg(feature = "std")]
            #[inline(always)]
            fn log(self, base: Self) -> Self {
                <Self>::from_f32(self.to_f32().log(base.to_f32()))
            }
            #[cfg(feature = "std")]
            #[inline(always)]
            fn log2(self) -> Self {
                <Self>::from_f32(self.to_f32().log2())
            }
            #[cfg(feature = "std")]
            #[inline(always)]
            fn log10(self) -> Self {
                <Self>::from_f32(self.to_f32().log10())
            }
            #[cfg(feature = "std")]
            #[inline(always)]
            fn cbrt(self) -> Self {
                <Self>::from_f32(self.to_f32().cbrt())
            }
            #[cfg(feature = "std")]
            #[inline(always)]
            fn hypot(self, other: Self) -> Self {
                <Self>::from_f32(self.to_f32().hypot(other.to_f32()))
            }
            #[cfg(feature = "std")]
            #[inline(always)]
            fn sin(self) -> Self {
                <Self>::from_f32(self.to_f32().sin())
            }
            #[cfg(feature = "std")]
            #[inline(always)]
            fn cos(self) -> Self {
                <Self>::from_f32(self.to_f32().cos())
            }
            #[cfg(feature = "std")]
            #[inline(always)]
            fn tan(self) -> Self {
                <Self>::from_f32(self.to_f32().tan())
            }
            #[cfg(feature = "std")]
            #[inline(always)]
            fn asin(self) -> Self {
                <Self>::from_f32(self.to_f32().asin())
            }
            #[cfg(feature = "std")]
            #[inline(always)]
            fn acos(self) -> Self {
                <Self>::from_f32(self.to_f32().acos())
            }
            #[cfg(feature = "std")]
            #[inline(always)]
            fn atan(self) -> Self {
                <Self>::from_f32(self.to_f32().atan())
            }
            #[cfg(feature = "std")]
            #[inline(always)]
            fn atan2(self, other: Self) -> Self {
                <Self>::from_f32(self.to_f32().atan2(other.to_f32()))
            }
            #[cfg(feature = "std")]
            #[inline(always)]
            fn sin_cos(self) -> (Self, Self) {
                let (s, c) = self.to_f32().sin_cos();
                (<Self>::from_f32(s), <Self>::from_f32(c))
            }
            #[cfg(feature = "std")]
            #[inline(always)]
            fn exp_m1(self) -> Self {
                <Self>::from_f32(self.to_f32().exp_m1())
            }
            #[cfg(feature = "std")]
            #[inline(always)]
            fn ln_1p(self) -> Self {
                <Self>::from_f32(self.to_f32().ln_1p())
            }
            #[cfg(feature = "std")]
            #[inline(always)]
            fn sinh(self) -> Self {
                <Self>::from_f32(self.to_f32().sinh())
            }
            #[cfg(feature = "std")]
            #[inline(always)]
            fn cosh(self) -> Self {
                <Self>::from_f32(self.to_f32().cosh())
            }
            #[cfg(feature = "std")]
            #[inline(always)]
            fn tanh(self) -> Self {
                <Self>::from_f32(self.to_f32().tanh())
            }
            #[cfg(feature = "std")]
            #[inline(always)]
            fn asinh(self) -> Self {
                <Self>::from_f32(self.to_f32().asinh())
            }
            #[cfg(feature = "std")]
            #[inline(always)]
            fn acosh(self) -> Self {
                <Self>::from_f32(self.to_f32().acosh())
            }
            #[cfg(feature = "std")]
            #[inline(always)]
            fn atanh(self) -> Self {
                <Self>::from_f32(self.to_f32().atanh())
            }
        }

        impl AtomicFloat for $aty {
            #[inline(always)]
            fn is_nan(&self, order: Ordering) -> bool {
                Self::NonAtomicType::from_bits(self.0.load(order)).is_nan()
            }
            #[inline(always)]
            fn is_infinite(&self, order: Ordering) -> bool {
                Self::NonAtomicType::from_bits(self.0.load(order)).is_infinite()
            }
            #[inline(always)]
            fn is_finite(&self, order: Ordering) -> bool {
                Self::NonAtomicType::from_bits(self.0.load(order)).is_finite()
            }
            #[inline(always)]
            fn is_subnormal(&self, order: Ordering) -> bool {
                Self::NonAtomicType::from_bits(self.0.load(order)).is_subnormal()
            }
            #[inline(always)]
            fn is_normal(&self, order: Ordering) -> bool {
                Self::NonAtomicType::from_bits(self.0.load(order)).is_normal()
            }
            #[inline(always)]
            fn classify(&self, order: Ordering) -> FpCategory {
                Self::NonAtomicType::from_bits(self.0.load(order)).classify()
            }
            #[inline(always)]
            fn is_sign_positive(&self, order: Ordering) -> bool {
                Self::NonAtomicType::from_bits(self.0.load(order)).is_sign_positive()
            }
            #[inline(always)]
            fn is_sign_negative(&self, order: Ordering) -> bool {
                Self::NonAtomicType::from_bits(self.0.load(order)).is_sign_negative()
            }
            #[inline(always)]
            fn fetch_recip(&self, order: Ordering) {
                self.0
                    .fetch_update(Ordering::Relaxed, order, |x| {
                        Some(Self::NonAtomicType::from_bits(x).recip().to_bits())
                    })
                    .unwrap();
            }
            #[inline(always)]
            fn fetch_to_degrees(&self, order: Ordering) {
                self.0
                    .fetch_update(Ordering::Relaxed, order, |x| {
                        Some(Self::NonAtomicType::from_bits(x).to_degrees().to_bits())
                    })
                    .unwrap();
            }
            #[inline(always)]
            fn fetch_to_radians(&self, order: Ordering) {
                self.0
                    .fetch_update(Ordering::Relaxed, order, |x| {
                        Some(Self::NonAtomicType::from_bits(x).to_radians().to_bits())
                    })
                    .unwrap();
            }
            #[cfg(feature = "std")]
            #[inline(always)]
            fn fetch_div_euclid(&self, rhs: Self::NonAtomicType, order: Ordering) {
                self.0
                    .fetch_update(Ordering::Relaxed, order, |x| {
                        Some(Self::NonAtomicType::from_bits(x).div_euclid(rhs).to_bits())
                    })
                    .unwrap();
            }
            #[cfg(feature = "std")]
            #[inline(always)]
            fn fetch_rem_euclid(&self, rhs: Self::NonAtomicType, order: Ordering) {
                self.0
                    .fetch_update(Ordering::Relaxed, order, |x| {
                        Some(Self::NonAtomicType::from_bits(x).rem_euclid(rhs).to_bits())
                    })
                    .unwrap();
            }
            #[cfg(feature = "std")]
            #[inline(always)]
            fn fetch_floor(&self, order: Ordering) {
                self.0
                    .fetch_update(Ordering::Relaxed, order, |x| {
                        Some(Self::NonAtomicType::from_bits(x).floor().to_bits())
                    })
                    .unwrap();
            }
            #[cfg(feature = "std")]
            #[inline(always)]
            fn fetch_ceil(&self, order: Ordering) {
                self.0
                    .fetch_update(Ordering::Relaxed, order, |x| {
                        Some(Self::NonAtomicType::from_bits(x).ceil().to_bits())
                    })
                    .unwrap();
            }
            #[cfg(feature = "std")]
            #[inline(always)]
            fn fetch_round(&self, order: Ordering) {
                self.0
                    .fetch_update(Ordering::Relaxed, order, |x| {
                        Some(Self::NonAtomicType::from_bits(x).round().to_bits())
                    })
                    .unwrap();
            }
            #[cfg(feature = "std")]
            #[inline(always)]
            fn fetch_trunc(&self, order: Ordering) {
                self.0
                    .fetch_update(Ordering::Relaxed, order, |x| {
                        Some(Self::NonAtomicType::from_bits(x).trunc().to_bits())
                    })
                    .unwrap();
            }
            #[cfg(feature = "std")]
            #[inline(always)]
            fn fetch_fract(&self, order: Ordering) {
                self.0
                    .fetch_update(Ordering::Relaxed, order, |x| {
                        Some(Self::NonAtomicType::from_bits(x).fract().to_bits())
                    })
                    .unwrap();
            }
            #[cfg(feature = "std")]
            #[inline(always)]
            fn fetch_abs(&self, order: Ordering) {
                self.0
                    .fetch_update(Ordering::Relaxed, order, |x| {
                        Some(Self::NonAtomicType::from_bits(x).abs().to_bits())
                    })
                    .unwrap();
            }
            #[cfg(feature = "std")]
            #[inline(always)]
            fn fetch_signum(&self, order: Ordering) {
                self.0
                    .fetch_update(Ordering::Relaxed, order, |x| {
                        Some(Self::NonAtomicType::from_bits(x).signum().to_bits())
                    })
                    .unwrap();
            }
            #[cfg(feature = "std")]
            #[inline(always)]
            fn fetch_copysign(&self, sign: Self::NonAtomicType, order: Ordering) {
                self.0
                    .fetch_update(Ordering::Relaxed, order, |x| {
                        Some(Self::NonAtomicType::from_bits(x).copysign(sign).to_bits())
                    })
                    .unwrap();
            }
            #[cfg(feature = "std")]
            #[inline(always)]
            fn fetch_powi(&self, n: isize, order: Ordering) {
                self.0
                    .fetch_update(Ordering::Relaxed, order, |x| {
                        Some(Self::NonAtomicType::from_bits(x).powi(n).to_bits())
                    })
                    .unwrap();
            }
            #[cfg(feature = "std")]
            #[inline(always)]
            fn fetch_powf(&self, n: Self::NonAtomicType, order: Ordering) {
                self.0
                    .fetch_update(Ordering::Relaxed, order, |x| {
                        Some(Self::NonAtomicType::from_bits(x).powf(n).to_bits())
                    })
                    .unwrap();
            }
            #[cfg(feature = "std")]
            #[inline(always)]
            fn fetch_sqrt(&self, order: Ordering) {
                self.0
                    .fetch_update(Ordering::Relaxed, order, |x| {
                        Some(Self::NonAtomicType::from_bits(x).sqrt().to_bits())
                    })
                    .unwrap();
            }
            #[cfg(feature = "std")]
            #[inline(always)]
            fn fetch_exp(&self, order: Ordering) {
                self.0
                    .fetch_update(Ordering::Relaxed, order, |x| {
                        Some(Self::NonAtomicType::from_bits(x).exp().to_bits())
                    })
                    .unwrap();
            }
            #[cfg(feature = "std")]
            #[inline(always)]
            fn fetch_exp2(&self, order: Ordering) {
                self.0
                    .fetch_update(Ordering::Relaxed, order, |x| {
                        Some(Self::NonAtomicType::from_bits(x).exp2().to_bits())
                    })
                    .unwrap();
            }
            #[cfg(feature = "std")]
            #[inline(always)]
            fn fetch_ln(&self, order: Ordering) {
                self.0
                    .fetch_update(Ordering::Relaxed, order, |x| {
                        Some(Self::NonAtomicType::from_bits(x).ln().to_bits())
                    })
                    .unwrap();
            }
            #[cfg(feature = "std")]
            #[inline(always)]
            fn fetch_log(&self, base: Self::NonAtomicType, order: Ordering) {
                self.0
                    .fetch_update(Ordering::Relaxed, order, |x| {
                        Some(Self::NonAtomicType::from_bits(x).log(base).to_bits())
                    })
                    .unwrap();
            }
            #[cfg(feature = "std")]
            #[inline(always)]
            fn fetch_log2(&self, order: Ordering) {
                self.0
                    .fetch_update(Ordering::Relaxed, order, |x| {
                        Some(Self::NonAtomicType::from_bits(x).log2().to_bits())
                    })
                    .unwrap();
            }
            #[cfg(feature = "std")]
            #[inline(always)]
            fn fetch_log10(&self, order: Ordering) {
                self.0
                    .fetch_update(Ordering::Relaxed, order, |x| {
                        Some(Self::NonAtomicType::from_bits(x).log10().to_bits())
                    })
                    .unwrap();
            }
            #[cfg(feature = "std")]
            #[inline(always)]
            fn fetch_cbrt(&self, order: Ordering) {
                self.0
                    .fetch_update(Ordering::Relaxed, order, |x| {
                        Some(Self::NonAtomicType::from_bits(x).cbrt().to_bits())
                    })
                    .unwrap();
            }
            #[cfg(feature = "std")]
            #[inline(always)]
            fn fetch_sin(&self, order: Ordering) {
                self.0
                    .fetch_update(Ordering::Relaxed, order, |x| {
                        Some(Self::NonAtomicType::from_bits(x).sin().to_bits())
                    })
                    .unwrap();
            }
            #[cfg(feature = "std")]
            #[inline(always)]
            fn fetch_cos(&self, order: Ordering) {
                self.0
                    .fetch_update(Ordering::Relaxed, order, |x| {
                        Some(Self::NonAtomicType::from_bits(x).cos().to_bits())
                    })
                    .unwrap();
            }
            #[cfg(feature = "std")]
            #[inline(always)]
            fn fetch_tan(&self, order: Ordering) {
                self.0
                    .fetch_update(Ordering::Relaxed, order, |x| {
                        Some(Self::NonAtomicType::from_bits(x).tan().to_bits())
                    })
                    .unwrap();
            }
            #[cfg(feature = "std")]
            #[inline(always)]
            fn fetch_asin(&self, order: Ordering) {
                self.0
                    .fetch_update(Ordering::Relaxed, order, |x| {
                        Some(Self::NonAtomicType::from_bits(x).asin().to_bits())
                    })
                    .unwrap();
            }
            #[cfg(feature = "std")]
            #[inline(always)]
            fn fetch_acos(&self, order: Ordering) {
                self.0
                    .fetch_update(Ordering::Relaxed, order, |x| {
                        Some(Self::NonAtomicType::from_bits(x).acos().to_bits())
                    })
                    .unwrap();
            }
            #[cfg(feature = "std")]
            #[inline(always)]
            fn fetch_atan(&self, order: Ordering) {
                self.0
                    .fetch_update(Ordering::Relaxed, order, |x| {
                        Some(Self::NonAtomicType::from_bits(x).atan().to_bits())
                    })
                    .unwrap();
            }
            #[cfg(feature = "std")]
            #[inline(always)]
            fn fetch_exp_m1(&self, order: Ordering) {
                self.0
                    .fetch_update(Ordering::Relaxed, order, |x| {
                        Some(Self::NonAtomicType::from_bits(x).exp_m1().to_bits())
                    })
                    .unwrap();
            }
            #[cfg(feature = "std")]
            #[inline(always)]
            fn fetch_ln_1p(&self, order: Ordering) {
                self.0
                    .fetch_update(Ordering::Relaxed, order, |x| {
                        Some(Self::NonAtomicType::from_bits(x).ln_1p().to_bits())
                    })
                    .unwrap();
            }
            #[cfg(feature = "std")]
            #[inline(always)]
            fn fetch_sinh(&self, order: Ordering) {
                self.0
                    .fetch_update(Ordering::Relaxed, order, |x| {
                        Some(Self::NonAtomicType::from_bits(x).sinh().to_bits())
                    })
                    .unwrap();
            }
            #[cfg(feature = "std")]
            #[inline(always)]
            fn fetch_cosh(&self, order: Ordering) {
                self.0
                    .fetch_update(Ordering::Relaxed, order, |x| {
                        Some(Self::NonAtomicType::from_bits(x).cosh().to_bits())
                    })
                    .unwrap();
            }
            #[cfg(feature = "std")]
            #[inline(always)]
            fn fetch_tanh(&self, order: Ordering) {
                self.0
                    .fetch_update(Ordering::Relaxed, order, |x| {
                        Some(Self::NonAtomicType::from_bits(x).tanh().to_bits())
                    })
                    .unwrap();
            }
            #[cfg(feature = "std")]
            #[inline(always)]
            fn fetch_asinh(&self, order: Ordering) {
                self.0
                    .fetch_update(Ordering::Relaxed, order, |x| {
                        Some(Self::NonAtomicType::from_bits(x).asinh().to_bits())
                    })
                    .unwrap();
            }
            #[cfg(feature = "std")]
            #[inline(always)]
            fn fetch_acosh(&self, order: Ordering) {
                self.0
                    .fetch_update(Ordering::Relaxed, order, |x| {
                        Some(Self::NonAtomicType::from_bits(x).acosh().to_bits())
                    })
                    .unwrap();
            }
            #[cfg(feature = "std")]
            #[inline(always)]
            fn fetch_atanh(&self, order: Ordering) {
                self.0
                    .fetch_update(Ordering::Relaxed, order, |x| {
                        Some(Self::NonAtomicType::from_bits(x).atanh().to_bits())
                    })
                    .unwrap();
            }
        }
    };
}

impl_float!(f32, AtomicF32, 0.0, 1.0, f64, AtomicF64, 0.0, 1.0,);
#[cfg(feature = "half")]
impl_f16!(half::f16, AtomicF16);
#[cfg(feature = "half")]
impl_f16!(half::bf16, AtomicBF16);
