use crate::Atomic;
use crate::FiniteRangeNumber;
use crate::Number;
use core::sync::atomic::Ordering;

/// An atomic number type.
pub trait AtomicNumber: Atomic
where
    Self::NonAtomicType: Number,
{
    /// Adds to the current value, returning the previous value.
    ///
    /// This operation wraps around on overflow.
    ///
    /// [`fetch_add`][`AtomicNumber::fetch_add`] an [`Ordering`](`core::sync::atomic::Ordering`) argument
    /// which describes the memory ordering of this operation. All ordering
    /// modes are possible.
    /// Note that using [`Acquire`](`core::sync::atomic::Ordering::Acquire`)
    /// makes the store part of this operation
    /// [`Relaxed`](`core::sync::atomic::Ordering::Relaxed`), and using
    /// [`Release`](`core::sync::atomic::Ordering::Release`) makes the load part
    /// [`Relaxed`](`core::sync::atomic::Ordering::Relaxed`).
    ///
    /// Note: This method is only available on platforms that support atomic
    /// operations on the given type.
    fn fetch_add(&self, value: Self::NonAtomicType, order: Ordering) -> Self::NonAtomicType;
    /// Subtracts from the current value, returning the previous value.
    ///
    /// This operation wraps around on overflow.
    ///
    /// Returns the previous value.
    ///
    /// [`fetch_sub`][`AtomicNumber::fetch_sub`] an [`Ordering`](`core::sync::atomic::Ordering`) argument
    /// which describes the memory ordering of this operation. All ordering
    /// modes are possible.
    /// Note that using [`Acquire`](`core::sync::atomic::Ordering::Acquire`)
    /// makes the store part of this operation
    /// [`Relaxed`](`core::sync::atomic::Ordering::Relaxed`), and using
    /// [`Release`](`core::sync::atomic::Ordering::Release`) makes the load part
    /// [`Relaxed`](`core::sync::atomic::Ordering::Relaxed`).
    ///
    /// Note: This method is only available on platforms that support atomic
    /// operations on the given type.
    fn fetch_sub(&self, value: Self::NonAtomicType, order: Ordering) -> Self::NonAtomicType;

    /// Maximum with the current value.
    ///
    /// Finds the maximum of the current value and the argument val, and sets
    /// the new value to the result.
    ///
    /// Returns the previous value.
    ///
    /// [`AtomicNumber::fetch_max`] an [`Ordering`](`core::sync::atomic::Ordering`) argument
    /// which describes the memory ordering of this operation. All ordering
    /// modes are possible.
    /// Note that using [`Acquire`](`core::sync::atomic::Ordering::Acquire`)
    /// makes the store part of this operation
    /// [`Relaxed`](`core::sync::atomic::Ordering::Relaxed`), and using
    /// [`Release`](`core::sync::atomic::Ordering::Release`) makes the load part
    /// [`Relaxed`](`core::sync::atomic::Ordering::Relaxed`).
    ///
    /// Note: This method is only available on platforms that support atomic
    /// operations on the given type.
    fn fetch_max(&self, value: Self::NonAtomicType, order: Ordering) -> Self::NonAtomicType;
    /// Minimum with the current value.
    ///
    /// Finds the minimum of the current value and the argument val, and sets
    /// the new value to the result.
    ///
    /// Returns the previous value.
    ///
    /// [`AtomicNumber::fetch_min`] an [`Ordering`](`core::sync::atomic::Ordering`) argument
    /// which describes the memory ordering of this operation. All ordering
    /// modes are possible.
    /// Note that using [`Acquire`](`core::sync::atomic::Ordering::Acquire`)
    /// makes the store part of this operation
    /// [`Relaxed`](`core::sync::atomic::Ordering::Relaxed`), and using
    /// [`Release`](`core::sync::atomic::Ordering::Release`) makes the load part
    /// [`Relaxed`](`core::sync::atomic::Ordering::Relaxed`).
    ///
    /// Note: This method is only available on platforms that support atomic
    /// operations on the given type.
    fn fetch_min(&self, value: Self::NonAtomicType, order: Ordering) -> Self::NonAtomicType;
}

/// An atomic finite number type.
pub trait AtomicFiniteRangeNumber: AtomicNumber
where
    Self::NonAtomicType: FiniteRangeNumber,
{
    #[inline(always)]
    /// Adds to the current value, returning the previous value.
    ///
    /// This operation staturates at the bounds and does not
    /// overflow. For floats it saturets at the biggset non infinity value and
    /// NAN are just forwarded.
    ///
    /// This is a convenience method for [`fetch_update`](`Atomic::fetch_update`).
    fn fetch_saturating_add(
        &self,
        value: Self::NonAtomicType,
        set_order: Ordering,
        fetch_order: Ordering,
    ) -> Self::NonAtomicType {
        let mut base = self.load(fetch_order);
        loop {
            let new = base.saturating_add(value);
            let res = self.compare_exchange_weak(base, new, set_order, fetch_order);
            match res {
                Ok(val) => return val,
                Err(val) => {
                    base = val;
                }
            }
        }
    }

    #[inline(always)]
    /// Subtract from the current value, returning the previous value.
    ///
    /// This operation staturates at the bounds and does not
    /// overflow. For floats it saturets at the biggset non infinity value and
    /// NAN are just forwarded.
    ///
    /// This is a convenience method for [`fetch_update`](`Atomic::fetch_update`).
    fn fetch_saturating_sub(
        &self,
        value: Self::NonAtomicType,
        set_order: Ordering,
        fetch_order: Ordering,
    ) -> Self::NonAtomicType {
        let mut base = self.load(fetch_order);
        loop {
            let new = base.saturating_sub(value);
            let res = self.compare_exchange_weak(base, new, set_order, fetch_order);
            match res {
                Ok(val) => return val,
                Err(val) => {
                    base = val;
                }
            }
        }
    }

    #[inline(always)]
    /// This is a convenience method for [`fetch_update`](`Atomic::fetch_update`).
    fn fetch_saturating_mul(
        &self,
        value: Self::NonAtomicType,
        set_order: Ordering,
        fetch_order: Ordering,
    ) -> Self::NonAtomicType {
        let mut base = self.load(fetch_order);
        loop {
            let new = base.saturating_mul(value);
            let res = self.compare_exchange_weak(base, new, set_order, fetch_order);
            match res {
                Ok(val) => return val,
                Err(val) => {
                    base = val;
                }
            }
        }
    }

    #[inline(always)]
    /// This is a convenience method for [`fetch_update`](`Atomic::fetch_update`).
    fn fetch_saturating_div(
        &self,
        value: Self::NonAtomicType,
        set_order: Ordering,
        fetch_order: Ordering,
    ) -> Self::NonAtomicType {
        let mut base = self.load(fetch_order);
        loop {
            let new = base.saturating_div(value);
            let res = self.compare_exchange_weak(base, new, set_order, fetch_order);
            match res {
                Ok(val) => return val,
                Err(val) => {
                    base = val;
                }
            }
        }
    }
    #[cfg(feature = "std")]
    #[inline(always)]
    /// This is a convenience method for [`fetch_update`](`Atomic::fetch_update`).
    fn fetch_saturating_pow(
        &self,
        value: Self::NonAtomicType,
        set_order: Ordering,
        fetch_order: Ordering,
    ) -> Self::NonAtomicType {
        let mut base = self.load(fetch_order);
        loop {
            let new = base.saturating_pow(value);
            let res = self.compare_exchange_weak(base, new, set_order, fetch_order);
            match res {
                Ok(val) => return val,
                Err(val) => {
                    base = val;
                }
            }
        }
    }
}
