use crate::{False, IsNonZero, IsSigned, True};
use crate::{Integer, NonZero, UnsignedInt};
use core::ops::Neg;

/// Signed UnsignedInt common operations
pub trait SignedInt:
    IsSigned<Signed = True> + IsNonZero<NonZero = False> + Neg<Output = Self> + Integer
{
    type UnsignedInt: UnsignedInt<SignedInt = Self>;
    /// The non-zero variant of the UnsignedInt
    type NonZeroUnsignedInt: NonZero<BaseType = Self>;

    /// Convert `self` into the unsigned variant of `Self`
    fn to_unsigned(self) -> Self::UnsignedInt;

    /// Computes the absolute value of self.
    /// # Overflow behavior
    /// The absolute value of Self::MIN cannot be represented as an Self, and a
    /// ttempting to calculate it will cause an overflow. This means that code
    /// in debug mode will trigger a panic on this case and optimized code will
    /// return Self::MIN without a panic.
    fn abs(self) -> Self;

    /// Checked absolute value. Computes self.abs(), returning None if
    /// self == MIN.
    fn checked_abs(self) -> Option<Self>;

    /// Checked negation. Computes -self, returning None if self == MIN.
    fn checked_neg(self) -> Option<Self>;

    /// Return a number representing the sign of `self`, i.e.
    /// * `0` if the number is zero
    /// * `1` if the number is positive
    /// * `-1` if the number is negative
    fn signum(self) -> Self;

    /// Checked subtraction with an unsigned integer. Computes self - rhs,
    /// returning None if overflow occurred.
    fn checked_sub_unsigned(self, rhs: Self::UnsignedInt) -> Option<Self>;

    /// Saturating addition with an unsigned integer. Computes self + rhs,
    /// saturating at the numeric bounds instead of overflowing.
    fn saturating_add_unsigned(self, rhs: Self::UnsignedInt) -> Self;

    /// Saturating subtraction with an unsigned integer. Computes self - rhs,
    /// saturating at the numeric bounds instead of overflowing.
    fn saturating_sub_unsigned(self, rhs: Self::UnsignedInt) -> Self;

    /// Wrapping (modular) addition with an unsigned integer. Computes
    /// self + rhs, wrapping around at the boundary of the type.
    fn wrapping_add_unsigned(self, rhs: Self::UnsignedInt) -> Self;

    /// Wrapping (modular) subtraction with an unsigned integer. Computes
    /// self - rhs, wrapping around at the boundary of the type.
    fn wrapping_sub_unsigned(self, rhs: Self::UnsignedInt) -> Self;
}
