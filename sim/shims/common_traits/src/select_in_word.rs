/// Select the i-th 1-bit or 0-bit in a word of memory.
/// ```
/// use common_traits::SelectInWord;
///
/// assert_eq!(0b1_u64.select_in_word(0), 0);
/// assert_eq!(0b11_u64.select_in_word(1), 1);
/// assert_eq!(0b101_u64.select_in_word(1), 2);
/// assert_eq!(0x8000_0000_0000_0000_u64.select_in_word(0), 63);
/// assert_eq!(0x8000_0000_8000_0000_u64.select_in_word(0), 31);
/// assert_eq!(0x8000_0000_8000_0000_u64.select_in_word(1), 63);
/// ```
pub trait SelectInWord: core::ops::Not<Output = Self> + Sized + Copy {
    fn select_in_word(&self, rank: usize) -> usize;

    #[inline(always)]
    fn select_zero_in_word(&self, rank: usize) -> usize {
        (!*self).select_in_word(rank)
    }
}

impl SelectInWord for u8 {
    #[inline(always)]
    fn select_in_word(&self, rank: usize) -> usize {
        debug_assert!(rank < self.count_ones() as _);
        // just re-use the SELECT_IN_BYTE table for u8
        let index = *self as usize | (rank << 8);
        SELECT_IN_BYTE[index] as usize
    }
}

impl SelectInWord for u16 {
    #[inline(always)]
    fn select_in_word(&self, rank: usize) -> usize {
        #[cfg(target_feature = "bmi2")]
        {
            (*self as u64).select_in_word(rank)
        }
        #[cfg(not(target_feature = "bmi2"))]
        {
            // [1] Sebastiano Vigna. BroadUnsignedInt Implementation of Rank/Select
            //  Queries. WEA, 2008
            //
            // [2] Simon Gog, Matthias Petri. Optimized succinct data structures
            // for massive data. Softw. Pract. Exper., 2014
            //
            //  [3] Sebastiano Vigna. MG4J 5.2.1. http://mg4j.di.unimi.it/
            //
            // [4] Facebook Folly library: https://github.com/facebook/folly
            //
            // geq_rank_step_8.trailing_zeroes() has been replaced by
            // geq_rank_step_8.count_ones() following a suggestion by
            // Giuseppe Ottaviano.

            const ONES_STEP_1: u16 = 0x1111;
            const ONES_STEP_2: u16 = 0x0101;
            const LAMBDAS_STEP_2: u16 = 0x80 * ONES_STEP_2;

            let mut s = *self;
            s = s - ((s & (0xA * ONES_STEP_1)) >> 1);
            s = (s & (0x3 * ONES_STEP_1)) + ((s >> 2) & (0x3 * ONES_STEP_1));
            s = (s + (s >> 4)) & (0xF * ONES_STEP_2);
            let byte_sums: u16 = s.wrapping_mul(ONES_STEP_2);

            let rank_step_8: u16 = rank as u16 * ONES_STEP_2;
            let geq_rank_step_8: u16 =
                ((rank_step_8 | LAMBDAS_STEP_2) - byte_sums) & LAMBDAS_STEP_2;
            let place = (geq_rank_step_8.count_ones() * 8) as usize;
            let byte_rank: u16 = rank as u16 - (((byte_sums << 8) >> place) & 0xFF_u16);
            let index = ((*self >> place) & 0xFF) | (byte_rank << 8);
            place + SELECT_IN_BYTE[index as usize] as usize
        }
    }
}

impl SelectInWord for u32 {
    #[inline(always)]
    fn select_in_word(&self, rank: usize) -> usize {
        #[cfg(target_feature = "bmi2")]
        {
            (*self as u64).select_in_word(rank)
        }
        #[cfg(not(target_feature = "bmi2"))]
        {
            // [1] Sebastiano Vigna. BroadUnsignedInt Implementation of Rank/Select
            //  Queries. WEA, 2008
            //
            // [2] Simon Gog, Matthias Petri. Optimized succinct data structures
            // for massive data. Softw. Pract. Exper., 2014
            //
            //  [3] Sebastiano Vigna. MG4J 5.2.1. http://mg4j.di.unimi.it/
            //
            // [4] Facebook Folly library: https://github.com/facebook/folly
            //
            // geq_rank_step_8.trailing_zeroes() has been replaced by
            // geq_rank_step_8.count_ones() following a suggestion by
            // Giuseppe Ottaviano.

            const ONES_STEP_2: u32 = 0x11111111;
            const ONES_STEP_4: u32 = 0x01010101;
            const LAMBDAS_STEP_4: u32 = 0x80 * ONES_STEP_4;

            let mut s = *self;
            s = s - ((s & (0xA * ONES_STEP_2)) >> 1);
            s = (s & (0x3 * ONES_STEP_2)) + ((s >> 2) & (0x3 * ONES_STEP_2));
            s = (s + (s >> 4)) & (0xF * ONES_STEP_4);
            let byte_sums: u32 = s.wrapping_mul(ONES_STEP_4);

            let rank_step_8: u32 = rank as u32 * ONES_STEP_4;
            let geq_rank_step_8: u32 =
                ((rank_step_8 | LAMBDAS_STEP_4) - byte_sums) & LAMBDAS_STEP_4;
            let place = (geq_rank_step_8.count_ones() * 8) as usize;
            let byte_rank: u32 = rank as u32 - (((byte_sums << 8) >> place) & 0xFF_u32);
            let index = ((*self >> place) & 0xFF) | (byte_rank << 8);
            place + SELECT_IN_BYTE[index as usize] as usize
        }
    }
}

impl SelectInWord for u64 {
    #[inline(always)]
    fn select_in_word(&self, rank: usize) -> usize {
        debug_assert!(rank < self.count_ones() as _);
        #[cfg(target_feature = "bmi2")]
        {
            use core::arch::x86_64::_pdep_u64;
            // A Fast x86 Implementation of Select
            // by Prashant Pandey, Michael A. Bender, and Rob Johnson
            let mask = 1 << rank;
            let one = unsafe { _pdep_u64(mask, *self) };
            one.trailing_zeros() as usize
        }
        #[cfg(not(target_feature = "bmi2"))]
        {
            // [1] Sebastiano Vigna. BroadUnsignedInt Implementation of Rank/Select
            //  Queries. WEA, 2008
            //
            // [2] Simon Gog, Matthias Petri. Optimized succinct data structures
            // for massive data. Softw. Pract. Exper., 2014
            //
            //  [3] Sebastiano Vigna. MG4J 5.2.1. http://mg4j.di.unimi.it/
            //
            // [4] Facebook Folly library: https://github.com/facebook/folly
            //
            // geq_rank_step_8.trailing_zeroes() has been replaced by
            // geq_rank_step_8.count_ones() following a suggestion by
            // Giuseppe Ottaviano.

            const ONES_STEP_4: u64 = 0x1111111111111111;
            const ONES_STEP_8: u64 = 0x0101010101010101;
            const LAMBDAS_STEP_8: u64 = 0x80 * ONES_STEP_8;

            let mut s = *self;
            s = s - ((s & (0xA * ONES_STEP_4)) >> 1);
            s = (s & (0x3 * ONES_STEP_4)) + ((s >> 2) & (0x3 * ONES_STEP_4));
            s = (s + (s >> 4)) & (0xF * ONES_STEP_8);
            let byte_sums: u64 = s.wrapping_mul(ONES_STEP_8);

            let rank_step_8: u64 = rank as u64 * ONES_STEP_8;
            let geq_rank_step_8: u64 =
                ((rank_step_8 | LAMBDAS_STEP_8) - byte_sums) & LAMBDAS_STEP_8;
            let place = (geq_rank_step_8.count_ones() * 8) as usize;
            let byte_rank: u64 = rank as u64 - (((byte_sums << 8) >> place) & 0xFF_u64);
            let index = ((*self >> place) & 0xFF) | (byte_rank << 8);
            place + SELECT_IN_BYTE[index as usize] as usize
        }
    }
}

/// TODO: This is a best effort implementation, it can probablly be optimized
impl SelectInWord for u128 {
    #[inline(always)]
    fn select_in_word(&self, rank: usize) -> usize {
        debug_assert!(rank < self.count_ones() as _);
        #[cfg(target_feature = "bmi2")]
        {
            let ones = (*self as u64).count_ones() as usize;
            if ones > rank {
                (*self as u64).select_in_word(rank)
            } else {
                64 + ((*self >> 64) as u64).select_in_word(rank - ones)
            }
        }
        #[cfg(not(target_feature = "bmi2"))]
        {
            // [1] Sebastiano Vigna. BroadUnsignedInt Implementation of Rank/Select
            //  Queries. WEA, 2008
            //
            // [2] Simon Gog, Matthias Petri. Optimized succinct data structures
            // for massive data. Softw. Pract. Exper., 2014
            //
            //  [3] Sebastiano Vigna. MG4J 5.2.1. http://mg4j.di.unimi.it/
            //
            // [4] Facebook Folly library: https://github.com/facebook/folly
            //
            // geq_rank_step_8.trailing_zeroes() has been replaced by
            // geq_rank_step_8.count_ones() following a suggestion by
            // Giuseppe Ottaviano.

            const ONES_STEP_8: u128 = 0x11111111111111111111111111111111;
            const ONES_STEP_16: u128 = 0x01010101010101010101010101010101;
            const LAMBDAS_STEP_16: u128 = 0x80 * ONES_STEP_16;

            let mut s = *self;
            s = s - ((s & (0xA * ONES_STEP_8)) >> 1);
            s = (s & (0x3 * ONES_STEP_8)) + ((s >> 2) & (0x3 * ONES_STEP_8));
            s = (s + (s >> 4)) & (0xF * ONES_STEP_16);
            let byte_sums: u128 = s.wrapping_mul(ONES_STEP_16);

            let rank_step_8: u128 = rank as u128 * ONES_STEP_16;
            let geq_rank_step_8: u128 =
                ((rank_step_8 | LAMBDAS_STEP_16) - byte_sums) & LAMBDAS_STEP_16;
            let place = (geq_rank_step_8.count_ones() * 8) as usize;
            let byte_rank: u128 = rank as u128 - (((byte_sums << 8) >> place) & 0xFF_u128);
            let index = ((*self >> place) & 0xFF) | (byte_rank << 8);
            place + SELECT_IN_BYTE[index as usize] as usize
        }
    }
}

const SELECT_IN_BYTE: [u8; 2048] = [
    8, 0, 1, 0, 2, 0, 1, 0, 3, 0, 1, 0, 2, 0, 1, 0, 4, 0, 1, 0, 2, 0, 1, 0, 3, 0, 1, 0, 2, 0, 1, 0,
    5, 0, 1, 0, 2, 0, 1, 0, 3, 0, 1, 0, 2, 0, 1, 0, 4, 0, 1, 0, 2, 0, 1, 0, 3, 0, 1, 0, 2, 0, 1, 0,
    6, 0, 1, 0, 2, 0, 1, 0, 3, 0, 1, 0, 2, 0, 1, 0, 4, 0, 1, 0, 2, 0, 1, 0, 3, 0, 1, 0, 2, 0, 1, 0,
    5, 0, 1, 0, 2, 0, 1, 0, 3, 0, 1, 0, 2, 0, 1, 0, 4, 0, 1, 0, 2, 0, 1, 0, 3, 0, 1, 0, 2, 0, 1, 0,
    7, 0, 1, 0, 2, 0, 1, 0, 3, 0, 1, 0, 2, 0, 1, 0, 4, 0, 1, 0, 2, 0, 1, 0, 3, 0, 1, 0, 2, 0, 1, 0,
    5, 0, 1, 0, 2, 0, 1, 0, 3, 0, 1, 0, 2, 0, 1, 0, 4, 0, 1, 0, 2, 0, 1, 0, 3, 0, 1, 0, 2, 0, 1, 0,
    6, 0, 1, 0, 2, 0, 1, 0, 3, 0, 1, 0, 2, 0, 1, 0, 4, 0, 1, 0, 2, 0, 1, 0, 3, 0, 1, 0, 2, 0, 1, 0,
    5, 0, 1, 0, 2, 0, 1, 0, 3, 0, 1, 0, 2, 0, 1, 0, 4, 0, 1, 0, 2, 0, 1, 0, 3, 0, 1, 0, 2, 0, 1, 0,
    8, 8, 8, 1, 8, 2, 2, 1, 8, 3, 3, 1, 3, 2, 2, 1, 8, 4, 4, 1, 4, 2, 2, 1, 4, 3, 3, 1, 3, 2, 2, 1,
    8, 5, 5, 1, 5, 2, 2, 1, 5, 3, 3, 1, 3, 2, 2, 1, 5, 4, 4, 1, 4, 2, 2, 1, 4, 3, 3, 1, 3, 2, 2, 1,
    8, 6, 6, 1, 6, 2, 2, 1, 6, 3, 3, 1, 3, 2, 2, 1, 6, 4, 4, 1, 4, 2, 2, 1, 4, 3, 3, 1, 3, 2, 2, 1,
    6, 5, 5, 1, 5, 2, 2, 1, 5, 3, 3, 1, 3, 2, 2, 1, 5, 4, 4, 1, 4, 2, 2, 1, 4, 3, 3, 1, 3, 2, 2, 1,
    8, 7, 7, 1, 7, 2, 2, 1, 7, 3, 3, 1, 3, 2, 2, 1, 7, 4, 4, 1, 4, 2, 2, 1, 4, 3, 3, 1, 3, 2, 2, 1,
    7, 5, 5, 1, 5, 2, 2, 1, 5, 3, 3, 1, 3, 2, 2, 1, 5, 4, 4, 1, 4, 2, 2, 1, 4, 3, 3, 1, 3, 2, 2, 1,
    7, 6, 6, 1, 6, 2, 2, 1, 6, 3, 3, 1, 3, 2, 2, 1, 6, 4, 4, 1, 4, 2, 2, 1, 4, 3, 3, 1, 3, 2, 2, 1,
    6, 5, 5, 1, 5, 2, 2, 1, 5, 3, 3, 1, 3, 2, 2, 1, 5, 4, 4, 1, 4, 2, 2, 1, 4, 3, 3, 1, 3, 2, 2, 1,
    8, 8, 8, 8, 8, 8, 8, 2, 8, 8, 8, 3, 8, 3, 3, 2, 8, 8, 8, 4, 8, 4, 4, 2, 8, 4, 4, 3, 4, 3, 3, 2,
    8, 8, 8, 5, 8, 5, 5, 2, 8, 5, 5, 3, 5, 3, 3, 2, 8, 5, 5, 4, 5, 4, 4, 2, 5, 4, 4, 3, 4, 3, 3, 2,
    8, 8, 8, 6, 8, 6, 6, 2, 8, 6, 6, 3, 6, 3, 3, 2, 8, 6, 6, 4, 6, 4, 4, 2, 6, 4, 4, 3, 4, 3, 3, 2,
    8, 6, 6, 5, 6, 5, 5, 2, 6, 5, 5, 3, 5, 3, 3, 2, 6, 5, 5, 4, 5, 4, 4, 2, 5, 4, 4, 3, 4, 3, 3, 2,
    8, 8, 8, 7, 8, 7, 7, 2, 8, 7, 7, 3, 7, 3, 3, 2, 8, 7, 7, 4, 7, 4, 4, 2, 7, 4, 4, 3, 4, 3, 3, 2,
    8, 7, 7, 5, 7, 5, 5, 2, 7, 5, 5, 3, 5, 3, 3, 2, 7, 5, 5, 4, 5, 4, 4, 2, 5, 4, 4, 3, 4, 3, 3, 2,
    8, 7, 7, 6, 7, 6, 6, 2, 7, 6, 6, 3, 6, 3, 3, 2, 7, 6, 6, 4, 6, 4, 4, 2, 6, 4, 4, 3, 4, 3, 3, 2,
    7, 6, 6, 5, 6, 5, 5, 2, 6, 5, 5, 3, 5, 3, 3, 2, 6, 5, 5, 4, 5, 4, 4, 2, 5, 4, 4, 3, 4, 3, 3, 2,
    8, 8, 8, 8, 8, 8, 8, 8, 8, 8, 8, 8, 8, 8, 8, 3, 8, 8, 8, 8, 8, 8, 8, 4, 8, 8, 8, 4, 8, 4, 4, 3,
    8, 8, 8, 8, 8, 8, 8, 5, 8, 8, 8, 5, 8, 5, 5, 3, 8, 8, 8, 5, 8, 5, 5, 4, 8, 5, 5, 4, 5, 4, 4, 3,
    8, 8, 8, 8, 8, 8, 8, 6, 8, 8, 8, 6, 8, 6, 6, 3, 8, 8, 8, 6, 8, 6, 6, 4, 8, 6, 6, 4, 6, 4, 4, 3,
    8, 8, 8, 6, 8, 6, 6, 5, 8, 6, 6, 5, 6, 5, 5, 3, 8, 6, 6, 5, 6, 5, 5, 4, 6, 5, 5, 4, 5, 4, 4, 3,
    8, 8, 8, 8, 8, 8, 8, 7, 8, 8, 8, 7, 8, 7, 7, 3, 8, 8, 8, 7, 8, 7, 7, 4, 8, 7, 7, 4, 7, 4, 4, 3,
    8, 8, 8, 7, 8, 7, 7, 5, 8, 7, 7, 5, 7, 5, 5, 3, 8, 7, 7, 5, 7, 5, 5, 4, 7, 5, 5, 4, 5, 4, 4, 3,
    8, 8, 8, 7, 8, 7, 7, 6, 8, 7, 7, 6, 7, 6, 6, 3, 8, 7, 7, 6, 7, 6, 6, 4, 7, 6, 6, 4, 6, 4, 4, 3,
    8, 7, 7, 6, 7, 6, 6, 5, 7, 6, 6, 5, 6, 5, 5, 3, 7, 6, 6, 5, 6, 5, 5, 4, 6, 5, 5, 4, 5, 4, 4, 3,
    8, 8, 8, 8, 8, 8, 8, 8, 8, 8, 8, 8, 8, 8, 8, 8, 8, 8, 8, 8, 8, 8, 8, 8, 8, 8, 8, 8, 8, 8, 8, 4,
    8, 8, 8, 8, 8, 8, 8, 8, 8, 8, 8, 8, 8, 8, 8, 5, 8, 8, 8, 8, 8, 8, 8, 5, 8, 8, 8, 5, 8, 5, 5, 4,
    8, 8, 8, 8, 8, 8, 8, 8, 8, 8, 8, 8, 8, 8, 8, 6, 8, 8, 8, 8, 8, 8, 8, 6, 8, 8, 8, 6, 8, 6, 6, 4,
    8, 8, 8, 8, 8, 8, 8, 6, 8, 8, 8, 6, 8, 6, 6, 5, 8, 8, 8, 6, 8, 6, 6, 5, 8, 6, 6, 5, 6, 5, 5, 4,
    8, 8, 8, 8, 8, 8, 8, 8, 8, 8, 8, 8, 8, 8, 8, 7, 8, 8, 8, 8, 8, 8, 8, 7, 8, 8, 8, 7, 8, 7, 7, 4,
    8, 8, 8, 8, 8, 8, 8, 7, 8, 8, 8, 7, 8, 7, 7, 5, 8, 8, 8, 7, 8, 7, 7, 5, 8, 7, 7, 5, 7, 5, 5, 4,
    8, 8, 8, 8, 8, 8, 8, 7, 8, 8, 8, 7, 8, 7, 7, 6, 8, 8, 8, 7, 8, 7, 7, 6, 8, 7, 7, 6, 7, 6, 6, 4,
    8, 8, 8, 7, 8, 7, 7, 6, 8, 7, 7, 6, 7, 6, 6, 5, 8, 7, 7, 6, 7, 6, 6, 5, 7, 6, 6, 5, 6, 5, 5, 4,
    8, 8, 8, 8, 8, 8, 8, 8, 8, 8, 8, 8, 8, 8, 8, 8, 8, 8, 8, 8, 8, 8, 8, 8, 8, 8, 8, 8, 8, 8, 8, 8,
    8, 8, 8, 8, 8, 8, 8, 8, 8, 8, 8, 8, 8, 8, 8, 8, 8, 8, 8, 8, 8, 8, 8, 8, 8, 8, 8, 8, 8, 8, 8, 5,
    8, 8, 8, 8, 8, 8, 8, 8, 8, 8, 8, 8, 8, 8, 8, 8, 8, 8, 8, 8, 8, 8, 8, 8, 8, 8, 8, 8, 8, 8, 8, 6,
    8, 8, 8, 8, 8, 8, 8, 8, 8, 8, 8, 8, 8, 8, 8, 6, 8, 8, 8, 8, 8, 8, 8, 6, 8, 8, 8, 6, 8, 6, 6, 5,
    8, 8, 8, 8, 8, 8, 8, 8, 8, 8, 8, 8, 8, 8, 8, 8, 8, 8, 8, 8, 8, 8, 8, 8, 8, 8, 8, 8, 8, 8, 8, 7,
    8, 8, 8, 8, 8, 8, 8, 8, 8, 8, 8, 8, 8, 8, 8, 7, 8, 8, 8, 8, 8, 8, 8, 7, 8, 8, 8, 7, 8, 7, 7, 5,
    8, 8, 8, 8, 8, 8, 8, 8, 8, 8, 8, 8, 8, 8, 8, 7, 8, 8, 8, 8, 8, 8, 8, 7, 8, 8, 8, 7, 8, 7, 7, 6,
    8, 8, 8, 8, 8, 8, 8, 7, 8, 8, 8, 7, 8, 7, 7, 6, 8, 8, 8, 7, 8, 7, 7, 6, 8, 7, 7, 6, 7, 6, 6, 5,
    8, 8, 8, 8, 8, 8, 8, 8, 8, 8, 8, 8, 8, 8, 8, 8, 8, 8, 8, 8, 8, 8, 8, 8, 8, 8, 8, 8, 8, 8, 8, 8,
    8, 8, 8, 8, 8, 8, 8, 8, 8, 8, 8, 8, 8, 8, 8, 8, 8, 8, 8, 8, 8, 8, 8, 8, 8, 8, 8, 8, 8, 8, 8, 8,
    8, 8, 8, 8, 8, 8, 8, 8, 8, 8, 8, 8, 8, 8, 8, 8, 8, 8, 8, 8, 8, 8, 8, 8, 8, 8, 8, 8, 8, 8, 8, 8,
    8, 8, 8, 8, 8, 8, 8, 8, 8, 8, 8, 8, 8, 8, 8, 8, 8, 8, 8, 8, 8, 8, 8, 8, 8, 8, 8, 8, 8, 8, 8, 6,
    8, 8, 8, 8, 8, 8, 8, 8, 8, 8, 8, 8, 8, 8, 8, 8, 8, 8, 8, 8, 8, 8, 8, 8, 8, 8, 8, 8, 8, 8, 8, 8,
    8, 8, 8, 8, 8, 8, 8, 8, 8, 8, 8, 8, 8, 8, 8, 8, 8, 8, 8, 8, 8, 8, 8, 8, 8, 8, 8, 8, 8, 8, 8, 7,
    8, 8, 8, 8, 8, 8, 8, 8, 8, 8, 8, 8, 8, 8, 8, 8, 8, 8, 8, 8, 8, 8, 8, 8, 8, 8, 8, 8, 8, 8, 8, 7,
    8, 8, 8, 8, 8, 8, 8, 8, 8, 8, 8, 8, 8, 8, 8, 7, 8, 8, 8, 8, 8, 8, 8, 7, 8, 8, 8, 7, 8, 7, 7, 6,
    8, 8, 8, 8, 8, 8, 8, 8, 8, 8, 8, 8, 8, 8, 8, 8, 8, 8, 8, 8, 8, 8, 8, 8, 8, 8, 8, 8, 8, 8, 8, 8,
    8, 8, 8, 8, 8, 8, 8, 8, 8, 8, 8, 8, 8, 8, 8, 8, 8, 8, 8, 8, 8, 8, 8, 8, 8, 8, 8, 8, 8, 8, 8, 8,
    8, 8, 8, 8, 8, 8, 8, 8, 8, 8, 8, 8, 8, 8, 8, 8, 8, 8, 8, 8, 8, 8, 8, 8, 8, 8, 8, 8, 8, 8, 8, 8,
    8, 8, 8, 8, 8, 8, 8, 8, 8, 8, 8, 8, 8, 8, 8, 8, 8, 8, 8, 8, 8, 8, 8, 8, 8, 8, 8, 8, 8, 8, 8, 8,
    8, 8, 8, 8, 8, 8, 8, 8, 8, 8, 8, 8, 8, 8, 8, 8, 8, 8, 8, 8, 8, 8, 8, 8, 8, 8, 8, 8, 8, 8, 8, 8,
    8, 8, 8, 8, 8, 8, 8, 8, 8, 8, 8, 8, 8, 8, 8, 8, 8, 8, 8, 8, 8, 8, 8, 8, 8, 8, 8, 8, 8, 8, 8, 8,
    8, 8, 8, 8, 8, 8, 8, 8, 8, 8, 8, 8, 8, 8, 8, 8, 8, 8, 8, 8, 8, 8, 8, 8, 8, 8, 8, 8, 8, 8, 8, 8,
    8, 8, 8, 8, 8, 8, 8, 8, 8, 8, 8, 8, 8, 8, 8, 8, 8, 8, 8, 8, 8, 8, 8, 8, 8, 8, 8, 8, 8, 8, 8, 7,
];

macro_rules! impl_usize {
    ($ty:ty, $pw:literal) => {
        #[cfg(target_pointer_width = $pw)]
        impl SelectInWord for usize {
            #[inline(always)]
            fn select_in_word(&self, rank: usize) -> usize {
                (*self as $ty).select_in_word(rank) as usize
            }
        }
    };
}

impl_usize!(u16, "16");
impl_usize!(u32, "32");
impl_usize!(u64, "64");
