use crate::{False, IsAtomic};
use core::fmt::{Debug, Display};
use core::ops::{Add, AddAssign, Div, DivAssign, Mul, MulAssign, Rem, RemAssign, Sub, SubAssign};

/// A trait for operations that are shared by integers and floats.
pub trait Number:
    IsAtomic<Atomic = False>
    + Copy
    + Clone
    + Display
    + Default
    + Debug
    + PartialOrd
    + PartialEq
    + Add<Output = Self>
    + AddAssign
    + Div<Output = Self>
    + DivAssign
    + Mul<Output = Self>
    + MulAssign
    + Rem<Output = Self>
    + RemAssign
    + Sub<Output = Self>
    + SubAssign
{
    /// Zero represented by `Self`
    const ZERO: Self;
    /// One represented by `Self`
    const ONE: Self;
    /// Fused multiply-add. Computes (self * a) + b with only one rounding error,
    /// yielding a more accurate result than an unfused multiply-add.
    ///
    /// Using mul_add may be more performant than an unfused multiply-add if the
    /// target architecture has a dedicated fma CPU instruction. However, this
    /// is not always true, and will be heavily dependant on designing
    /// algorithms with specific target hardware in mind.
    fn mul_add(self, a: Self, b: Self) -> Self;

    /// Raises self to the power of exp, using exponentiation by squaring.
    #[cfg(feature = "std")]
    fn pow(self, exp: Self) -> Self;

    /// Returns the maximum of the two numbers, ignoring NaN on floats.
    ///
    /// If one of the arguments is NaN, then the other argument is returned.
    /// This follows the IEEE 754-2008 semantics for maxNum, except for handling
    /// of signaling NaNs; this function handles all NaNs the same way and
    /// avoids maxNum’s problems with associativity. This also matches the
    /// behavior of libm’s fmax.
    fn max(self, other: Self) -> Self;

    /// Returns the minimum of the two numbers, ignoring NaN on floats.
    ///
    /// If one of the arguments is NaN, then the other argument is returned.
    /// This follows the IEEE 754-2008 semantics for minNum, except for handling
    /// of signaling NaNs; this function handles all NaNs the same way and
    /// avoids minNum’s problems with associativity. This also matches the
    /// behavior of libm’s fmin.
    fn min(self, other: Self) -> Self;

    /// Restrict a value to a certain interval unless it is NaN on floats.
    ///
    /// Returns max if self is greater than max, and min if self is less than min. Otherwise this returns self.
    ///
    /// Note that this function returns NaN if the initial value was NaN as well.
    ///
    /// # Panics
    /// Panics if min > max, min is NaN, or max is NaN.
    fn clamp(self, min: Self, max: Self) -> Self;
}

/// A number that has a Max and a Min.
pub trait FiniteRangeNumber: Number {
    /// Minimum value represented by `Self`
    const MIN: Self;
    /// Maximum value represented by `Self`
    const MAX: Self;

    /// Saturating integer addition. Computes self + rhs, saturating at the
    /// numeric bounds instead of overflowing.
    fn saturating_add(self, rhs: Self) -> Self;

    /// Saturating integer division. Computes self / rhs, saturating at the
    /// numeric bounds instead of overflowing.
    fn saturating_div(self, rhs: Self) -> Self;

    /// Saturating integer multiplication. Computes self * rhs, saturating at
    /// the numeric bounds instead of overflowing.
    fn saturating_mul(self, rhs: Self) -> Self;

    /// Saturating integer exponentiation. Computes self.pow(exp), saturating
    /// at the numeric bounds instead of overflowing.
    #[cfg(feature = "std")]
    fn saturating_pow(self, rhs: Self) -> Self;

    /// Saturating integer subtraction. Computes self - rhs, saturating at the
    /// numeric bounds instead of overflowing.
    fn saturating_sub(self, rhs: Self) -> Self;
}
