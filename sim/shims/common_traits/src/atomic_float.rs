use crate::{
    Atomic, AtomicFiniteRangeNumber, AtomicNumber, False, FiniteRangeNumber, Float, IsFloat,
    IsInteger, IsNonZero, IsSigned, Number, True,
};
use core::sync::atomic::{AtomicU32, AtomicU64, Ordering};

#[cfg(feature = "half")]
use core::sync::atomic::AtomicU16;

#[derive(Debug)]
#[repr(transparent)]
/// Atomic [`f64`] based on [`AtomicU64`]
pub struct AtomicF64(AtomicU64);

#[derive(Debug)]
#[repr(transparent)]
/// Atomic [`f32`] based on [`AtomicU32`]
pub struct AtomicF32(AtomicU32);

macro_rules! impl_atomic_float {
    ($ty:ty, $atomic:ty, $inner:ty) => {
        impl core::default::Default for $atomic {
            fn default() -> Self {
                Self::new(<Self as Atomic>::NonAtomicType::ZERO)
            }
        }

        impl Atomic for $atomic {
            type NonAtomicType = $ty;

            fn new(value: Self::NonAtomicType) -> Self {
                Self(<$inner>::new(value.to_bits()))
            }

            fn load(&self, order: Ordering) -> Self::NonAtomicType {
                Self::NonAtomicType::from_bits(self.0.load(order))
            }

            fn store(&self, value: Self::NonAtomicType, order: Ordering) {
                self.0.store(value.to_bits(), order)
            }

            fn get_mut(&mut self) -> &mut Self::NonAtomicType {
                unsafe { &mut *(self as *mut Self as *mut Self::NonAtomicType) }
            }

            fn into_inner(self) -> Self::NonAtomicType {
                Self::NonAtomicType::from_bits(self.0.into_inner())
            }

            #[inline(always)]
            fn into_non_atomic_array<const N: usize>(data: [Self; N]) -> [Self::NonAtomicType; N] {
                unsafe { *(data.as_ptr() as *const [Self::NonAtomicType; N]) }
            }

            #[inline(always)]
            fn from_non_atomic_array<const N: usize>(data: [Self::NonAtomicType; N]) -> [Self; N] {
                let mut res: [Self; N] = unsafe { core::mem::MaybeUninit::uninit().assume_init() };
                for i in 0..N {
                    res[i] = Self::new(data[i]);
                }
                res
            }

            #[inline(always)]
            fn get_mut_slice(this: &mut [Self]) -> &mut [Self::NonAtomicType] {
                unsafe { core::mem::transmute::<&mut [Self], &mut [Self::NonAtomicType]>(this) }
            }

            #[inline(always)]
            fn from_mut_slice(this: &mut [Self::NonAtomicType]) -> &mut [Self] {
                unsafe { core::mem::transmute::<&mut [Self::NonAtomicType], &mut [Self]>(this) }
            }

            #[inline(always)]
            fn get_mut_array<const N: usize>(
                this: &mut [Self; N],
            ) -> &mut [Self::NonAtomicType; N] {
                unsafe {
                    core::mem::transmute::<&mut [Self; N], &mut [Self::NonAtomicType; N]>(this)
                }
            }
            #[inline(always)]
            fn from_mut_array<const N: usize>(
                this: &mut [Self::NonAtomicType; N],
            ) -> &mut [Self; N] {
                unsafe {
                    core::mem::transmute::<&mut [Self::NonAtomicType; N], &mut [Self; N]>(this)
                }
            }

            fn compare_exchange(
                &self,
                current: Self::NonAtomicType,
                new: Self::NonAtomicType,
                success: Ordering,
                failure: Ordering,
            ) -> Result<Self::NonAtomicType, Self::NonAtomicType> {
                self.0
                    .compare_exchange(current.to_bits(), new.to_bits(), success, failure)
                    .map(Self::NonAtomicType::from_bits)
                    .map_err(Self::NonAtomicType::from_bits)
            }

            fn compare_exchange_weak(
                &self,
                current: Self::NonAtomicType,
                new: Self::NonAtomicType,
                success: Ordering,
                failure: Ordering,
            ) -> Result<Self::NonAtomicType, Self::NonAtomicType> {
                self.0
                    .compare_exchange_weak(current.to_bits(), new.to_bits(), success, failure)
                    .map(Self::NonAtomicType::from_bits)
                    .map_err(Self::NonAtomicType::from_bits)
            }

            fn swap(&self, value: Self::NonAtomicType, order: Ordering) -> Self::NonAtomicType {
                Self::NonAtomicType::from_bits(self.0.swap(value.to_bits(), order))
            }

            fn fetch_update<F>(
                &self,
                set_order: Ordering,
                fetch_order: Ordering,
                mut f: F,
            ) -> Result<Self::NonAtomicType, Self::NonAtomicType>
            where
                F: FnMut(Self::NonAtomicType) -> Option<Self::NonAtomicType>,
            {
                self.0
                    .fetch_update(set_order, fetch_order, |x| {
                        f(Self::NonAtomicType::from_bits(x)).map(Self::NonAtomicType::to_bits)
                    })
                    .map(Self::NonAtomicType::from_bits)
                    .map_err(Self::NonAtomicType::from_bits)
            }
        }
        impl AtomicNumber for $atomic {
            fn fetch_min(
                &self,
                value: Self::NonAtomicType,
                order: Ordering,
            ) -> Self::NonAtomicType {
                self.fetch_update(Ordering::Relaxed, order, |x| {
                    Some(Self::NonAtomicType::min(x, value))
                })
                .unwrap()
            }

            fn fetch_max(
                &self,
                value: Self::NonAtomicType,
                order: Ordering,
            ) -> Self::NonAtomicType {
                self.fetch_update(Ordering::Relaxed, order, |x| {
                    Some(Self::NonAtomicType::max(x, value))
                })
                .unwrap()
            }

            fn fetch_add(
                &self,
                value: Self::NonAtomicType,
                order: Ordering,
            ) -> Self::NonAtomicType {
                self.fetch_update(Ordering::Relaxed, order, |x| Some(x + value))
                    .unwrap()
            }

            fn fetch_sub(
                &self,
                value: Self::NonAtomicType,
                order: Ordering,
            ) -> Self::NonAtomicType {
                self.fetch_update(Ordering::Relaxed, order, |x| Some(x - value))
                    .unwrap()
            }
        }
        impl AtomicFiniteRangeNumber for $atomic {
            #[inline(always)]
            fn fetch_saturating_add(
                &self,
                value: Self::NonAtomicType,
                set_order: Ordering,
                fetch_order: Ordering,
            ) -> Self::NonAtomicType {
                self.fetch_update(set_order, fetch_order, |x| Some(x.saturating_add(value)))
                    .unwrap()
            }
            #[inline(always)]
            fn fetch_saturating_sub(
                &self,
                value: Self::NonAtomicType,
                set_order: Ordering,
                fetch_order: Ordering,
            ) -> Self::NonAtomicType {
                self.fetch_update(set_order, fetch_order, |x| Some(x.saturating_sub(value)))
                    .unwrap()
            }
            #[inline(always)]
            fn fetch_saturating_mul(
                &self,
                value: Self::NonAtomicType,
                set_order: Ordering,
                fetch_order: Ordering,
            ) -> Self::NonAtomicType {
                self.fetch_update(set_order, fetch_order, |x| Some(x.saturating_mul(value)))
                    .unwrap()
            }
            #[inline(always)]
            fn fetch_saturating_div(
                &self,
                value: Self::NonAtomicType,
                set_order: Ordering,
                fetch_order: Ordering,
            ) -> Self::NonAtomicType {
                self.fetch_update(set_order, fetch_order, |x| Some(x.saturating_div(value)))
                    .unwrap()
            }
            #[cfg(feature = "std")]
            #[inline(always)]
            fn fetch_saturating_pow(
                &self,
                value: Self::NonAtomicType,
                set_order: Ordering,
                fetch_order: Ordering,
            ) -> Self::NonAtomicType {
                self.fetch_update(set_order, fetch_order, |x| Some(x.saturating_pow(value)))
                    .unwrap()
            }
        }
    };
}

impl_atomic_float!(f64, AtomicF64, AtomicU64);
impl_atomic_float!(f32, AtomicF32, AtomicU32);

#[cfg(feature = "half")]
#[derive(Debug)]
#[repr(transparent)]
/// Atomic [`half::f16`] based on [`AtomicU16`]
pub struct AtomicF16(pub(crate) AtomicU16);

#[cfg(feature = "half")]
#[derive(Debug)]
#[repr(transparent)]
/// Atomic [`half::bf16`] based on [`AtomicU16`]
pub struct AtomicBF16(pub(crate) AtomicU16);

/// An atomic float type.
pub trait AtomicFloat:
    AtomicFiniteRangeNumber
    + IsFloat<Float = True>
    + IsInteger<Integer = False>
    + IsSigned<Signed = True>
    + IsNonZero<NonZero = False>
where
    Self::NonAtomicType: Float,
{
    /// Returns true if this value is NaN.
    fn is_nan(&self, order: Ordering) -> bool;

    /// Returns true if this value is positive infinity or negative infinity,
    /// and false otherwise.
    fn is_infinite(&self, order: Ordering) -> bool;

    /// Returns true if this number is neither infinite nor NaN.
    fn is_finite(&self, order: Ordering) -> bool;

    /// Return `true` if the number is [subnormal](https://en.wikipedia.org/wiki/Subnormal_number)
    fn is_subnormal(&self, order: Ordering) -> bool;

    /// Return `true` if the number is neither zero, infinite, [subnormal](https://en.wikipedia.org/wiki/Subnormal_number), or NaN.
    fn is_normal(&self, order: Ordering) -> bool;

    /// Returns true if self has a positive sign, including +0.0, NaNs with
    /// positive sign bit and positive infinity. Note that IEEE 754 doesn’t
    /// assign any meaning to the sign bit in case of a NaN, and as Rust doesn’t
    /// guarantee that the bit pattern of NaNs are conserved over arithmetic
    ///  operations, the result of is_sign_positive on a NaN might produce an
    /// unexpected result in some cases. See explanation of NaN as a special
    /// value for more info.
    fn is_sign_positive(&self, order: Ordering) -> bool;

    /// Returns true if self has a negative sign, including -0.0, NaNs with
    /// egative sign bit and negative infinity. Note that IEEE 754 doesn’t a
    /// ssign any meaning to the sign bit in case of a NaN, and as Rust doesn’t
    /// guarantee that the bit pattern of NaNs are conserved over arithmetic
    /// operations, the result of is_sign_negative on a NaN might produce an
    /// unexpected result in some cases. See explanation of NaN as a special
    /// value for more info.
    fn is_sign_negative(&self, order: Ordering) -> bool;

    /// Returns the floating point category of the number. If only one property
    /// is going to be tested, it is generally faster to use the specific
    /// predicate instead.
    fn classify(&self, order: Ordering) -> core::num::FpCategory;

    /// Atomically set self to the reciprocal (inverse) of a number, 1/x.
    fn fetch_recip(&self, order: Ordering);

    /// Converts radians to degrees.
    fn fetch_to_degrees(&self, order: Ordering);

    /// Converts degrees to radians.
    fn fetch_to_radians(&self, order: Ordering);

    /// Performs Euclidean division.
    /// Since, for the positive integers, all common definitions of division are
    /// equal, this is exactly equal to self / rhs.
    #[cfg(feature = "std")]
    fn fetch_div_euclid(&self, rhs: Self::NonAtomicType, order: Ordering);

    /// Calculates the least remainder of self (mod rhs).
    /// Since, for the positive integers, all common definitions of division are
    /// equal, this is exactly equal to self % rhs.
    #[cfg(feature = "std")]
    fn fetch_rem_euclid(&self, rhs: Self::NonAtomicType, order: Ordering);

    /// Returns the largest integer less than or equal to self.
    #[cfg(feature = "std")]
    fn fetch_floor(&self, order: Ordering);

    /// Returns the smallest integer greater than or equal to self.
    #[cfg(feature = "std")]
    fn fetch_ceil(&self, order: Ordering);

    /// Returns the nearest integer to self. Round half-way cases away from 0.0.
    #[cfg(feature = "std")]
    fn fetch_round(&self, order: Ordering);

    /// Returns the integer part of self. This means that non-integer numbers
    /// are always truncated towards zero.
    #[cfg(feature = "std")]
    fn fetch_trunc(&self, order: Ordering);

    /// Returns the fractional part of self.
    #[cfg(feature = "std")]
    fn fetch_fract(&self, order: Ordering);

    /// Computes the absolute value of self.
    #[cfg(feature = "std")]
    fn fetch_abs(&self, order: Ordering);

    /// Returns a number that represents the sign of self.
    ///
    /// - 1.0 if the number is positive, +0.0 or INFINITY
    /// - -1.0 if the number is negative, -0.0 or NEG_INFINITY
    /// - NaN if the number is NaN
    #[cfg(feature = "std")]
    fn fetch_signum(&self, order: Ordering);

    /// Returns a number composed of the magnitude of self and the sign of sign.
    ///
    /// Equal to self if the sign of self and sign are the same, otherwise equal
    /// to -self. If self is a NaN, then a NaN with the sign bit of sign is
    /// returned. Note, however, that conserving the sign bit on NaN across
    /// arithmetical operations is not generally guaranteed. See explanation of
    /// NaN as a special value for more info.
    #[cfg(feature = "std")]
    fn fetch_copysign(&self, sign: Self::NonAtomicType, order: Ordering);

    /// Raises a number to an integer power.
    ///
    /// Using this function is generally faster than using powf. It might have a
    /// different sequence of rounding operations than powf, so the results are
    /// not guaranteed to agree.
    #[cfg(feature = "std")]
    fn fetch_powi(&self, n: isize, order: Ordering);

    /// Raises a number to a floating point power.
    #[cfg(feature = "std")]
    fn fetch_powf(&self, n: Self::NonAtomicType, order: Ordering);

    /// Returns the square root of a number.
    ///
    /// Returns NaN if self is a negative number other than -0.0.
    #[cfg(feature = "std")]
    fn fetch_sqrt(&self, order: Ordering);

    /// Returns `e^(self)`, (the exponential function).
    #[cfg(feature = "std")]
    fn fetch_exp(&self, order: Ordering);

    /// Returns 2^(self).
    #[cfg(feature = "std")]
    fn fetch_exp2(&self, order: Ordering);

    /// Returns the natural logarithm of the number.
    #[cfg(feature = "std")]
    fn fetch_ln(&self, order: Ordering);

    /// Returns the logarithm of the number with respect to an arbitrary base.
    ///
    /// The result might not be correctly rounded owing to implementation
    /// details; self.log2() can produce more accurate results for base 2,
    /// and self.log10() can produce more accurate results for base 10.
    #[cfg(feature = "std")]
    fn fetch_log(&self, base: Self::NonAtomicType, order: Ordering);

    /// Returns the base 2 logarithm of the number.
    #[cfg(feature = "std")]
    fn fetch_log2(&self, order: Ordering);

    /// Returns the base 10 logarithm of the number.
    #[cfg(feature = "std")]
    fn fetch_log10(&self, order: Ordering);

    /// Returns the cube root of a number.
    #[cfg(feature = "std")]
    fn fetch_cbrt(&self, order: Ordering);

    /// Computes the sine of a number (in radians).
    #[cfg(feature = "std")]
    fn fetch_sin(&self, order: Ordering);

    /// Computes the cosine of a number (in radians).
    #[cfg(feature = "std")]
    fn fetch_cos(&self, order: Ordering);

    /// Computes the tangent of a number (in radians).
    #[cfg(feature = "std")]
    fn fetch_tan(&self, order: Ordering);

    /// Computes the arcsine of a number. Return value is in radians in the
    /// range [-pi/2, pi/2] or NaN if the number is outside the range [-1, 1].
    #[cfg(feature = "std")]
    fn fetch_asin(&self, order: Ordering);

    /// Computes the arccosine of a number. Return value is in radians in the
    /// range [0, pi] or NaN if the number is outside the range [-1, 1].
    #[cfg(feature = "std")]
    fn fetch_acos(&self, order: Ordering);

    /// Computes the arctangent of a number. Return value is in radians in the
    /// range [-pi/2, pi/2];
    #[cfg(feature = "std")]
    fn fetch_atan(&self, order: Ordering);

    /// Returns e^(self) - 1 in a way that is accurate even if the number is
    /// close to zero.
    #[cfg(feature = "std")]
    fn fetch_exp_m1(&self, order: Ordering);

    /// Returns ln(1+n) (natural logarithm) more accurately than if the
    /// operations were performed separately.
    #[cfg(feature = "std")]
    fn fetch_ln_1p(&self, order: Ordering);

    /// Hyperbolic sine function.
    #[cfg(feature = "std")]
    fn fetch_sinh(&self, order: Ordering);

    /// Hyperbolic cosine function.
    #[cfg(feature = "std")]
    fn fetch_cosh(&self, order: Ordering);

    /// Hyperbolic tangent function.
    #[cfg(feature = "std")]
    fn fetch_tanh(&self, order: Ordering);

    /// Inverse hyperbolic sine function.
    #[cfg(feature = "std")]
    fn fetch_asinh(&self, order: Ordering);

    /// Inverse hyperbolic cosine function.
    #[cfg(feature = "std")]
    fn fetch_acosh(&self, order: Ordering);

    /// Inverse hyperbolic tangent function.
    #[cfg(feature = "std")]
    fn fetch_atanh(&self, order: Ordering);
}
