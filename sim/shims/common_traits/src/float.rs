use crate::FiniteRangeNumber;
use crate::{False, IsAtomic, IsFloat, IsInteger, IsNonZero, IsSigned, True};
use core::fmt::LowerExp;
use core::ops::Neg;

/// Common operations on floats
pub trait Float:
    Neg<Output = Self>
    + FiniteRangeNumber
    + LowerExp
    + IsAtomic<Atomic = False>
    + IsFloat<Float = True>
    + IsInteger<Integer = False>
    + IsSigned<Signed = True>
    + IsNonZero<NonZero = False>
{
    // TODO: figure out both bits and numerical conversions
    // fn to_bits(self) ->
    // fn from-bits()

    /// The radix or base of the internal representation of [`Self`]
    const RADIX: usize;
    /// Approximate number of significant digits in base 10.
    const DIGITS: usize;
    /// This is the difference between 1.0 and the next larger representable number.
    const EPSILON: Self;

    /// Infinity (∞).
    const INFINITY: Self;

    /// Negative infinity (−∞).
    const NEG_INFINITY: Self;

    /// Not a Number (NaN).
    ///
    /// Note that IEEE 754 doesn’t define just a single NaN value; a plethora of
    /// bit patterns are considered to be NaN. Furthermore, the standard makes a
    /// difference between a “signaling” and a “quiet” NaN, and allows
    /// inspecting its “payload” (the unspecified bits in the bit pattern).
    /// This constant isn’t guaranteed to equal to any specific NaN bitpattern,
    /// and the stability of its representation over Rust versions and target
    /// platforms isn’t guaranteed.
    const NAN: Self;

    /// Number of significant digits in base 2.
    const MANTISSA_DIGITS: usize;
    /// Maximum possible power of 10 exponent.
    const MAX_10_EXP: usize;
    /// Maximum possible power of 2 exponent.
    const MAX_EXP: usize;
    /// Minimum possible normal power of 10 exponent.
    const MIN_10_EXP: usize;
    /// One greater than the minimum possible normal power of 2 exponent.
    const MIN_EXP: usize;
    /// Smallest positive normal value.
    const MIN_POSITIVE: Self;

    /// Returns true if this value is NaN.
    fn is_nan(self) -> bool;

    /// Returns true if this value is positive infinity or negative infinity,
    /// and false otherwise.
    fn is_infinite(self) -> bool;

    /// Returns true if this number is neither infinite nor NaN.
    fn is_finite(self) -> bool;

    /// Return `true` if the number is [subnormal](https://en.wikipedia.org/wiki/Subnormal_number)
    fn is_subnormal(self) -> bool;

    /// Return `true` if the number is neither zero, infinite, [subnormal](https://en.wikipedia.org/wiki/Subnormal_number), or NaN.
    fn is_normal(self) -> bool;

    /// Returns the floating point category of the number. If only one property
    /// is going to be tested, it is generally faster to use the specific
    /// predicate instead.
    fn classify(self) -> core::num::FpCategory;

    /// Returns true if self has a positive sign, including +0.0, NaNs with
    /// positive sign bit and positive infinity. Note that IEEE 754 doesn’t
    /// assign any meaning to the sign bit in case of a NaN, and as Rust doesn’t
    /// guarantee that the bit pattern of NaNs are conserved over arithmetic
    ///  operations, the result of is_sign_positive on a NaN might produce an
    /// unexpected result in some cases. See explanation of NaN as a special
    /// value for more info.
    fn is_sign_positive(self) -> bool;

    /// Returns true if self has a negative sign, including -0.0, NaNs with
    /// egative sign bit and negative infinity. Note that IEEE 754 doesn’t a
    /// ssign any meaning to the sign bit in case of a NaN, and as Rust doesn’t
    /// guarantee that the bit pattern of NaNs are conserved over arithmetic
    /// operations, the result of is_sign_negative on a NaN might produce an
    /// unexpected result in some cases. See explanation of NaN as a special
    /// value for more info.
    fn is_sign_negative(self) -> bool;

    /// Takes the reciprocal (inverse) of a number, 1/x.
    fn recip(self) -> Self;

    /// Converts radians to degrees.
    fn to_degrees(self) -> Self;

    /// Converts degrees to radians.
    fn to_radians(self) -> Self;

    /// Return the ordering between `self` and `other`.
    ///
    /// Unlike the standard partial comparison between floating point numbers,
    /// this comparison always produces an ordering in accordance to the
    /// `totalOrder` predicate as defined in the IEEE 754 (2008 revision)
    /// floating point standard. The values are ordered in the following sequence:
    /// - negative quiet NaN
    /// - negative signaling NaN
    /// - negative infinity
    /// - negative numbers
    /// - negative subnormal numbers
    /// - negative zero
    /// - positive zero
    /// - positive subnormal numbers
    /// - positive numbers
    /// - positive infinity
    /// - positive signaling NaN
    /// - positive quiet NaN.
    ///
    /// The ordering established by this function does not always agree with the
    /// [`PartialOrd`] and [`PartialEq`] implementations of [`Self`].
    /// For example, they consider negative and positive zero equal, while
    /// total_cmp doesn’t.
    ///
    /// The interpretation of the signaling NaN bit follows the definition in
    /// the IEEE 754 standard, which may not match the interpretation by some
    /// of the older, non-conformant (e.g. MIPS) hardware implementations.
    fn total_cmp(&self, other: &Self) -> core::cmp::Ordering;

    /// Performs Euclidean division.
    /// Since, for the positive integers, all common definitions of division are
    /// equal, this is exactly equal to self / rhs.
    #[cfg(feature = "std")]
    fn div_euclid(self, rhs: Self) -> Self;

    /// Calculates the least remainder of self (mod rhs).
    /// Since, for the positive integers, all common definitions of division are
    /// equal, this is exactly equal to self % rhs.
    #[cfg(feature = "std")]
    fn rem_euclid(self, rhs: Self) -> Self;

    /// Returns the largest integer less than or equal to self.
    #[cfg(feature = "std")]
    fn floor(self) -> Self;

    /// Returns the smallest integer greater than or equal to self.
    #[cfg(feature = "std")]
    fn ceil(self) -> Self;

    /// Returns the nearest integer to self. Round half-way cases away from 0.0.
    #[cfg(feature = "std")]
    fn round(self) -> Self;

    /// Returns the integer part of self. This means that non-integer numbers
    /// are always truncated towards zero.
    #[cfg(feature = "std")]
    fn trunc(self) -> Self;

    /// Returns the fractional part of self.
    #[cfg(feature = "std")]
    fn fract(self) -> Self;

    /// Computes the absolute value of self.
    #[cfg(feature = "std")]
    fn abs(self) -> Self;

    /// Returns a number that represents the sign of self.
    ///
    /// - 1.0 if the number is positive, +0.0 or INFINITY
    /// - -1.0 if the number is negative, -0.0 or NEG_INFINITY
    /// - NaN if the number is NaN
    #[cfg(feature = "std")]
    fn signum(self) -> Self;

    /// Returns a number composed of the magnitude of self and the sign of sign.
    ///
    /// Equal to self if the sign of self and sign are the same, otherwise equal
    /// to -self. If self is a NaN, then a NaN with the sign bit of sign is
    /// returned. Note, however, that conserving the sign bit on NaN across
    /// arithmetical operations is not generally guaranteed. See explanation of
    /// NaN as a special value for more info.
    #[cfg(feature = "std")]
    fn copysign(self, sign: Self) -> Self;

    /// Raises a number to an integer power.
    ///
    /// Using this function is generally faster than using powf. It might have a
    /// different sequence of rounding operations than powf, so the results are
    /// not guaranteed to agree.
    #[cfg(feature = "std")]
    fn powi(self, n: isize) -> Self;

    /// Raises a number to a floating point power.
    #[cfg(feature = "std")]
    fn powf(self, n: Self) -> Self;

    /// Returns the square root of a number.
    ///
    /// Returns NaN if self is a negative number other than -0.0.
    #[cfg(feature = "std")]
    fn sqrt(self) -> Self;

    /// Returns `e^(self)`, (the exponential function).
    #[cfg(feature = "std")]
    fn exp(self) -> Self;

    /// Returns 2^(self).
    #[cfg(feature = "std")]
    fn exp2(self) -> Self;

    /// Returns the natural logarithm of the number.
    #[cfg(feature = "std")]
    fn ln(self) -> Self;

    /// Returns the logarithm of the number with respect to an arbitrary base.
    ///
    /// The result might not be correctly rounded owing to implementation
    /// details; self.log2() can produce more accurate results for base 2,
    /// and self.log10() can produce more accurate results for base 10.
    #[cfg(feature = "std")]
    fn log(self, base: Self) -> Self;

    /// Returns the base 2 logarithm of the number.
    #[cfg(feature = "std")]
    fn log2(self) -> Self;

    /// Returns the base 10 logarithm of the number.
    #[cfg(feature = "std")]
    fn log10(self) -> Self;

    /// Returns the cube root of a number.
    #[cfg(feature = "std")]
    fn cbrt(self) -> Self;

    /// Calculates the length of the hypotenuse of a right-angle triangle given
    /// legs of length x and y.
    #[cfg(feature = "std")]
    fn hypot(self, other: Self) -> Self;

    /// Computes the sine of a number (in radians).
    #[cfg(feature = "std")]
    fn sin(self) -> Self;

    /// Computes the cosine of a number (in radians).
    #[cfg(feature = "std")]
    fn cos(self) -> Self;

    /// Computes the tangent of a number (in radians).
    #[cfg(feature = "std")]
    fn tan(self) -> Self;

    /// Computes the arcsine of a number. Return value is in radians in the
    /// range [-pi/2, pi/2] or NaN if the number is outside the range [-1, 1].
    #[cfg(feature = "std")]
    fn asin(self) -> Self;

    /// Computes the arccosine of a number. Return value is in radians in the
    /// range [0, pi] or NaN if the number is outside the range [-1, 1].
    #[cfg(feature = "std")]
    fn acos(self) -> Self;

    /// Computes the arctangent of a number. Return value is in radians in the
    /// range [-pi/2, pi/2];
    #[cfg(feature = "std")]
    fn atan(self) -> Self;

    /// Computes the four quadrant arctangent of self (y) and other (x) in radians.
    ///
    /// - `x = 0`, `y = 0: 0`
    /// - `x >= 0`: `arctan(y/x) -> [-pi/2, pi/2]`
    /// - `y >= 0`: `arctan(y/x) + pi -> (pi/2, pi]`
    /// - `y < 0`: `arctan(y/x) - pi -> (-pi, -pi/2)`
    #[cfg(feature = "std")]
    fn atan2(self, other: Self) -> Self;

    /// Simultaneously computes the sine and cosine of the number, x. Returns
    /// (sin(x), cos(x)).
    #[cfg(feature = "std")]
    fn sin_cos(self) -> (Self, Self);

    /// Returns e^(self) - 1 in a way that is accurate even if the number is
    /// close to zero.
    #[cfg(feature = "std")]
    fn exp_m1(self) -> Self;

    /// Returns ln(1+n) (natural logarithm) more accurately than if the
    /// operations were performed separately.
    #[cfg(feature = "std")]
    fn ln_1p(self) -> Self;

    /// Hyperbolic sine function.
    #[cfg(feature = "std")]
    fn sinh(self) -> Self;

    /// Hyperbolic cosine function.
    #[cfg(feature = "std")]
    fn cosh(self) -> Self;

    /// Hyperbolic tangent function.
    #[cfg(feature = "std")]
    fn tanh(self) -> Self;

    /// Inverse hyperbolic sine function.
    #[cfg(feature = "std")]
    fn asinh(self) -> Self;

    /// Inverse hyperbolic cosine function.
    #[cfg(feature = "std")]
    fn acosh(self) -> Self;

    /// Inverse hyperbolic tangent function.
    #[cfg(feature = "std")]
    fn atanh(self) -> Self;
}
