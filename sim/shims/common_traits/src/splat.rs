/// Take a smaller value and broadcast to all the values
///
/// (Thanks to B3NNY for the more readable code, this should compile to
/// the original multiplication by 0x0101010101010101).
pub trait Splat<T> {
    fn splat(value: T) -> Self;
}

/// Blanket implementation that ensures that a reflexive splat is a no-operation
impl<T> Splat<T> for T {
    #[inline(always)]
    fn splat(value: T) -> Self {
        value
    }
}

macro_rules! impl_broadcast {
    ($($ty1:ty => $ty2:ty,)*) => {
$(
impl Splat<$ty1> for $ty2 {
    #[inline(always)]
    fn splat(value: $ty1) -> Self {
        const SIZE: usize = core::mem::size_of::<$ty2>() / core::mem::size_of::<$ty1>();
        #[allow(clippy::useless_transmute)]
        <$ty2>::from_ne_bytes(unsafe{
            core::mem::transmute::<[$ty1; SIZE], [u8; core::mem::size_of::<$ty2>()]>([value; SIZE])
        })
    }
}
)*
    };
}

impl_broadcast!(
    u8 => u16,
    u8 => u32,
    u8 => u64,
    u8 => usize,
    u8 => u128,

    u16 => u32,
    u16 => u64,
    u16 => u128,

    u32 => u64,
    u32 => u128,

    u64 => u128,
    // TODO add simd splat
);
