/// Primitive cast between types using `as`
pub trait To<T> {
    fn to(self) -> T;
}

/// blanket implementation to ensure reflexive `To` is the identity function
impl<T> To<T> for T {
    #[inline(always)]
    fn to(self) -> Self {
        self
    }
}

macro_rules! impl_to {
    ($ty1:ty, $($ty:ty,)*) => {
$(
    impl To<$ty> for $ty1 {
        #[inline(always)]
        fn to(self) -> $ty {
            self as $ty
        }
    }
    impl To<$ty1> for $ty {
        #[inline(always)]
        fn to(self) -> $ty1 {
            self as $ty1
        }
    }
)*

impl_to!($($ty,)*);

};
    () => {};
}

impl_to!(u8, i8, u16, i16, u32, i32, u64, i64, u128, i128, f32, f64, usize, isize,);

#[cfg(feature = "half")]
mod half_impl {
    use super::*;

    macro_rules! impl_to_half {
        ($ty1:ty, $($ty:ty,)*) => {

    impl To<half::f16> for $ty1 {
        #[inline(always)]
        fn to(self) -> half::f16 {
            (self as f32).to()
        }
    }
    impl To<half::bf16> for $ty1 {
        #[inline(always)]
        fn to(self) -> half::bf16 {
            (self as f32).to()
        }
    }
    impl To<$ty1> for half::f16 {
        #[inline(always)]
        fn to(self) -> $ty1 {
            self.to_f32().to()
        }
    }
    impl To<$ty1> for half::bf16 {
        #[inline(always)]
        fn to(self) -> $ty1 {
            self.to_f32().to()
        }
    }

    impl_to_half!($($ty,)*);
        };
        () => {};
    }

    impl_to_half!(u8, i8, u16, i16, u32, i32, u64, i64, u128, i128, usize, isize,);

    impl To<half::f16> for f32 {
        #[inline(always)]
        fn to(self) -> half::f16 {
            half::f16::from_f32(self)
        }
    }
    impl To<half::bf16> for f32 {
        #[inline(always)]
        fn to(self) -> half::bf16 {
            half::bf16::from_f32(self)
        }
    }
    impl To<half::f16> for f64 {
        #[inline(always)]
        fn to(self) -> half::f16 {
            half::f16::from_f64(self)
        }
    }
    impl To<half::bf16> for f64 {
        #[inline(always)]
        fn to(self) -> half::bf16 {
            half::bf16::from_f64(self)
        }
    }
    impl To<f32> for half::f16 {
        #[inline(always)]
        fn to(self) -> f32 {
            self.to_f32()
        }
    }
    impl To<f32> for half::bf16 {
        #[inline(always)]
        fn to(self) -> f32 {
            self.to_f32()
        }
    }
    impl To<f64> for half::f16 {
        #[inline(always)]
        fn to(self) -> f64 {
            self.to_f64()
        }
    }
    impl To<f64> for half::bf16 {
        #[inline(always)]
        fn to(self) -> f64 {
            self.to_f64()
        }
    }
}
