/// A generic Random number generator
///
/// # Example
///
/// ```rust
/// use common_traits::{Rng, RngNext};
///
/// pub struct Xorshift64(u64);
///
/// impl Rng for Xorshift64 {
///     type Seed = u64;
///
///     fn new(seed: u64) -> Self {
///         Self(seed.saturating_add(1))
///     }
/// }
///
/// impl RngNext<u64> for Xorshift64 {
///     fn next_inner(&mut self) -> u64 {
///         self.0 ^= self.0 << 13;
///         self.0 ^= self.0 >> 7;
///         self.0 ^= self.0 << 17;
///         self.0
///     }
/// }
///
/// impl RngNext<f64> for Xorshift64 {
///     fn next_inner(&mut self) -> f64 {
///         let v: u64 = (self.next::<u64>() >> 11) | (1023 << 52);
///         let r: f64 = f64::from_le_bytes(v.to_le_bytes());
///         r - 1f64
///     }
/// }
/// ```
pub trait Rng {
    type Seed;

    /// Instantiate a new Rng making no assumptions on its seed.
    fn new(seed: Self::Seed) -> Self;

    /// automatic dispatching of the implementation, no need to re-implement
    #[inline(always)]
    fn next<T>(&mut self) -> T
    where
        Self: RngNext<T>,
    {
        <Self as RngNext<T>>::next_inner(self)
    }
}

/// Implementation of a specific type generation for a Rng
///
/// # Example
///
/// ```rust
/// use common_traits::{Rng, RngNext};
///
/// pub struct Xorshift64(u64);
///
/// impl Rng for Xorshift64 {
///     type Seed = u64;
///     fn new(seed: u64) -> Self {
///         Self(seed.saturating_add(1))
///     }
/// }
///
/// impl RngNext<u64> for Xorshift64 {
///     fn next_inner(&mut self) -> u64 {
///         self.0 ^= self.0 << 13;
///         self.0 ^= self.0 >> 7;
///         self.0 ^= self.0 << 17;
///         self.0
///     }
/// }
///
/// impl RngNext<f64> for Xorshift64 {
///     fn next_inner(&mut self) -> f64 {
///         let v: u64 = (self.next::<u64>() >> 11) | (1023 << 52);
///         let r: f64 = f64::from_le_bytes(v.to_le_bytes());
///         r - 1f64
///     }
/// }
/// ```
pub trait RngNext<T> {
    fn next_inner(&mut self) -> T;
}
