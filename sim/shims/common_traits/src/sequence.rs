#[cfg(feature = "alloc")]
use alloc::boxed::Box;
#[cfg(feature = "alloc")]
use alloc::vec::Vec;
use anyhow::{bail, Result};

/// A trait for types that can be viewed as a sequence of copiable elements,
/// such as `&[T]`.
///
/// The difference between this and `AsRef<[T]>` is that the get method doesn't
/// return a reference, but a copy of the element. This allows to use
/// transparently compressed or succint data structures as if they were slices.
#[impl_tools::autoimpl(for<T: trait + ?Sized> &T, &mut T)]
#[cfg_attr(feature = "alloc", impl_tools::autoimpl(for<T: trait + ?Sized> Box<T>))]
pub trait Sequence {
    /// The type of the elements stored in the Sequence.
    type Item: Copy;
    /// The type of the iterator returned by `iter`.
    type Iter<'a>: Iterator<Item = Self::Item>
    where
        Self::Item: 'a,
        Self: 'a;

    /// Return the length of the Sequence.
    fn len(&self) -> usize;

    /// Return the element of the Sequence at the given position, without
    /// doing any bounds checking.
    ///
    /// # Safety
    ///
    /// Must not be called with `index` out of the Sequence bounds.
    unsafe fn get_unchecked(&self, index: usize) -> Self::Item;

    /// Return the element of the Sequence at the given position, or `None` if the
    /// position is out of bounds.
    fn get(&self, index: usize) -> Result<Self::Item> {
        if index >= self.len() {
            bail!(
                "The index {} is out of bounds for the Sequence of length {}",
                index,
                self.len(),
            );
        }
        Ok(unsafe { self.get_unchecked(index) })
    }

    /// Return if the Sequence has length zero
    fn is_empty(&self) -> bool {
        self.len() == 0
    }

    /// Return an iterator over the elements of the Sequence.
    fn iter(&self) -> Self::Iter<'_>;
}

/// A trait for types that can be viewed as a mutable sequence of copiable elements,
/// such as `&mut [T]`.
///
/// The difference between this and `AsMut<[T]>` is that the get method doesn't
/// return a reference, but a copy of the element. This allows to use
/// transparently compressed or succint data structures as if they were slices.
#[impl_tools::autoimpl(for<T: trait + ?Sized> &mut T)]
#[cfg_attr(feature = "alloc", impl_tools::autoimpl(for<T: trait + ?Sized> Box<T>))]
pub trait SequenceMut: Sequence {
    /// Set the element of the Sequence at the given position, without
    /// doing any bounds checking.
    ///
    /// # Safety
    ///
    /// Must not be called with `index` out of the Sequence bounds.
    unsafe fn set_unchecked(&mut self, index: usize, value: Self::Item);

    /// Set the element of the Sequence at the given position
    fn set(&mut self, index: usize, value: Self::Item) -> Result<()> {
        if index >= self.len() {
            bail!(
                "The index {} is out of bounds for the Sequence of length {}",
                index,
                self.len(),
            );
        }
        unsafe { self.set_unchecked(index, value) };
        Ok(())
    }
}

/// A trait for types that can be viewed as a growable sequence of copiable elements,
/// such as `Vec<T>`.
///
/// The difference between this and `Vec<T>` is that the get method doesn't
/// return a reference, but a copy of the element. This allows to use
/// transparently compressed or succint data structures as if they were slices.
#[impl_tools::autoimpl(for<T: trait + ?Sized> &mut T)]
#[cfg_attr(feature = "alloc", impl_tools::autoimpl(for<T: trait + ?Sized> Box<T>))]
pub trait SequenceGrowable: SequenceMut {
    /// Resize the Sequence to the given length, filling with the given value.
    fn resize(&mut self, new_len: usize, value: Self::Item);
    /// Push an element to the end of the Sequence
    fn push(&mut self, value: Self::Item);
    /// Remove the last element from the Sequence and return it, or `None` if it is empty.
    fn pop(&mut self) -> Option<Self::Item>;
    /// Set len to 0
    fn clear(&mut self);
    /// Extend from another Sequence
    fn extend_from<S: Sequence<Item = Self::Item>>(&mut self, other: &S);
}

impl<T: Copy, const N: usize> Sequence for [T; N] {
    type Item = T;
    type Iter<'a>
        = core::iter::Copied<core::slice::Iter<'a, Self::Item>>
    where
        Self::Item: 'a,
        Self: 'a;
    #[inline(always)]
    fn len(&self) -> usize {
        N
    }
    #[inline(always)]
    unsafe fn get_unchecked(&self, index: usize) -> T {
        debug_assert!(index < self.len(), "{} {}", index, self.len());
        <[T; N]>::get_unchecked(self, index)
    }
    #[inline(always)]
    fn iter(&self) -> Self::Iter<'_> {
        self.as_ref().iter().copied()
    }
}

impl<T: Copy> Sequence for [T] {
    type Item = T;
    type Iter<'b>
        = core::iter::Copied<core::slice::Iter<'b, Self::Item>>
    where
        Self::Item: 'b,
        Self: 'b;
    #[inline(always)]
    fn len(&self) -> usize {
        <[T]>::len(self)
    }
    #[inline(always)]
    unsafe fn get_unchecked(&self, index: usize) -> T {
        debug_assert!(index < self.len(), "{} {}", index, self.len());
        *<[T]>::get_unchecked(self, index)
    }
    #[inline(always)]
    fn iter(&self) -> Self::Iter<'_> {
        <[T]>::iter(self).copied()
    }
}

impl<T: Copy, const N: usize> SequenceMut for [T; N] {
    #[inline(always)]
    unsafe fn set_unchecked(&mut self, index: usize, value: T) {
        debug_assert!(index < self.len(), "{} {}", index, self.len());
        *self.get_unchecked_mut(index) = value;
    }
}

impl<T: Copy> SequenceMut for [T] {
    #[inline(always)]
    unsafe fn set_unchecked(&mut self, index: usize, value: T) {
        debug_assert!(index < self.len(), "{} {}", index, self.len());
        *<[T]>::get_unchecked_mut(self, index) = value;
    }
}

#[cfg(any(feature = "alloc", feature = "std"))]
impl<T: Copy> Sequence for Vec<T> {
    type Item = T;
    type Iter<'a>
        = core::iter::Copied<core::slice::Iter<'a, Self::Item>>
    where
        Self::Item: 'a,
        Self: 'a;

    #[inline(always)]
    fn len(&self) -> usize {
        <Vec<T>>::len(self)
    }
    #[inline(always)]
    unsafe fn get_unchecked(&self, index: usize) -> T {
        debug_assert!(index < self.len(), "{} {}", index, self.len());
        *<[T]>::get_unchecked(self, index)
    }
    #[inline(always)]
    fn iter(&self) -> Self::Iter<'_> {
        <[T]>::iter(self).copied()
    }
}

#[cfg(any(feature = "alloc", feature = "std"))]
impl<T: Copy> SequenceMut for Vec<T> {
    #[inline(always)]
    unsafe fn set_unchecked(&mut self, index: usize, value: T) {
        debug_assert!(index < self.len(), "{} {}", index, self.len());
        *<[T]>::get_unchecked_mut(self, index) = value;
    }
}

#[cfg(any(feature = "alloc", feature = "std"))]
impl<T: Copy> SequenceGrowable for Vec<T> {
    #[inline(always)]
    fn resize(&mut self, new_len: usize, value: Self::Item) {
        <Vec<T>>::resize(self, new_len, value);
    }
    #[inline(always)]
    fn push(&mut self, value: Self::Item) {
        <Vec<T>>::push(self, value);
    }
    #[inline(always)]
    fn pop(&mut self) -> Option<Self::Item> {
        <Vec<T>>::pop(self)
    }
    #[inline(always)]
    fn clear(&mut self) {
        <Vec<T>>::clear(self);
    }
    #[inline(always)]
    fn extend_from<S: Sequence<Item = Self::Item>>(&mut self, other: &S) {
        for i in 0..other.len() {
            self.push(other.get(i).unwrap());
        }
    }
}
