//! No-op stand-in for the `thread-priority` crate: under the simulator the
//! scheduler, not the OS, decides who runs.

#[derive(Debug, Clone, Copy, PartialEq, Eq, Hash)]
pub struct ThreadPriorityValue(pub u8);

impl TryFrom<u8> for ThreadPriorityValue {
    type Error = &'static str;
    fn try_from(v: u8) -> Result<Self, Self::Error> {
        if v < 100 {
            Ok(Self(v))
        } else {
            Err("The value is not in the range of [0;99]")
        }
    }
}

#[derive(Debug, Clone, Copy, PartialEq, Eq, Hash)]
pub enum ThreadPriority {
    Min,
    Crossplatform(ThreadPriorityValue),
    Os(u32),
    Max,
}

#[derive(Debug, Clone, PartialEq, Eq, Hash)]
pub enum Error {
    Priority(&'static str),
    PriorityNotInRange(std::ops::RangeInclusive<i32>),
    OS(i32),
    Ffi(&'static str),
}

impl std::fmt::Display for Error {
    fn fmt(&self, f: &mut std::fmt::Formatter<'_>) -> std::fmt::Result {
        write!(f, "{self:?}")
    }
}
impl std::error::Error for Error {}

impl ThreadPriority {
    pub fn set_for_current(self) -> Result<(), Error> {
        Ok(())
    }
}

pub fn set_current_thread_priority(_priority: ThreadPriority) -> Result<(), Error> {
    Ok(())
}

pub fn get_current_thread_priority() -> Result<ThreadPriority, Error> {
    Ok(ThreadPriority::Crossplatform(ThreadPriorityValue(50)))
}
